#!/usr/bin/env python3
"""
translate.py — a small Rust -> Lean 4 translator for the WORD-LEVEL layer of the crate: the straight-line
`const fn`s of src/primitives.rs (adc, sbb, mac, mul_wide, mulhilo, addhilo, overflowing_add) and of
`impl ConstChoice` in src/const_choice.rs (the Hacker's-Delight predicates, mask constructors, selects).

It is run on every check (from tools/extract.py), reads /repo's CURRENT source and writes
lean/CB/Gen/Prim.lean: one Lean definition per Rust function over `BitVec 32/64/128`, statement for statement
(`let` for `let`, `wrapping_sub` -> `-`, `!` -> `~~~`, `as` -> `setWidth`, `Self(x)`/`self.0` -> the word itself).
lean/CB/Lemmas/GenBits.lean (hand-written, imports the generated file) proves with `bv_decide` what each
generated function MEANS (`from_word_lt x y = if x < y then all-ones else 0`, `adc`: lo + 2^64 hi = a + b + c, ...);
those are the facts the limb-level proofs rest on (CB/Lemmas/WordBits.lean states the same meaning for the
hand-written Nat model).  So for this layer the theorems are re-checked against what the code says NOW:
a one-token change in one of these functions changes the generated definition and the meaning theorem no longer
checks (a proof obligation of C04/C06 breaks -> search for a failing input -> report); a harmless rewrite inside the
supported subset still passes `bv_decide`, which decides the equivalence rather than matching syntax.

Supported subset (anything else makes the function "not translated": the last committed translation is kept,
and the evidence says so — the behavioural correspondence then carries the tie alone, no alarm is raised):
  types u8 u32 u64 u128 Word WideWord bool Self/ConstChoice (a 64-bit mask word), pairs of those;
  `let [mut] x = e;`, `let (a, b) = e;`, `debug_assert!(..)` (skipped), final expression, `return`-free bodies;
  operators ! - & | ^ << >> + - * == != < (shift amounts constant after folding `T::BITS`), `e as T`,
  methods wrapping_add/sub/mul/neg, overflowing_add, calls to other translated functions (`Self::f`, `x.f(..)`),
  `Self(e)`, `self.0`, `Self::TRUE/FALSE`, `T::MAX`, `T::BITS`, integer literals.

Second unit group (written to lean/CB/Gen/DivLimb.lean, which imports CB.Gen.Prim): the word-level division layer
src/uint/div_limb.rs, 64-bit configuration — `reciprocal`, `lt`, `select`, `short_div`, `div2by1`, `div3by2` and
`impl Reciprocal { new, default }`; `struct Reciprocal` becomes a Lean structure with the same field names.
Subset extensions used there (available to every unit):
  private `const fn`s (per unit), multi-line parameter lists, `&T` parameters;
  calls across units: bare `f(..)` resolves to the unit itself, then to the units it lists (primitives), `ConstChoice::f(..)`
  and methods on a `ConstChoice` value resolve to the ConstChoice unit (method chains `ConstChoice::g(x).or(..)`);
  structs with named integer fields: `s.field`, `Self { a, b: e }`; newtypes `Limb`, `NonZero<Limb>` (`.0` is the word);
  `let x: T = e`, `let (mut a, b) = e`, assignment `x = e` and compound assignment `x op= e` (each becomes a fresh `let`);
  `<<`/`>>` by a non-constant amount (release semantics: the amount is taken modulo the bit width);
  `leading_zeros()` (`BitVec.clz`); `as` between integer types;
  `while` loops with a data-independent trip count:
    - `while i > 0 { i -= 1; .. }` with a non-literal `i` becomes a structurally recursive auxiliary definition
      `<fn>_loop<k> captured.. : Nat → state.. → state` (state = the variables the body assigns, captured = the other
      variables it reads), called with `i.toNat`; inside round `n + 1` the counter is `BitVec.ofNat w n`;
    - `let mut i = K; while i < N { ..; i += 1; }` with literal K, N and a body that does not read `i` becomes the same
      kind of auxiliary definition, called with the literal trip count N - K;
    - any other loop whose condition can be evaluated (counter and bound literals) is unrolled by executing it
      symbolically (at most 256 rounds).

Third unit group (written to lean/CB/Gen/Chains.lean, imports CB.Gen.Prim): the carry chains over the limbs of a
`Uint<LIMBS>` — `impl Limb { adc, sbb, mac, is_nonzero }` (src/limb/{add,sub,mul,cmp}.rs; namespace CB.Gen.Chains.Limb)
and `impl<const LIMBS: usize> Uint<LIMBS> { adc, wrapping_add, sbb, wrapping_sub, carrying_neg, wrapping_neg, is_nonzero,
eq, lt, gt, lte }` (src/uint/{add,sub,neg,cmp}.rs; namespace CB.Gen.Chains.Uint).  Subset extensions used there:
  a unit gathered from the inherent impl blocks (`impl[<..>] Ty[<..>] {`) of SEVERAL files (`rel` a list);
  a unit generic over a limb count (`generic='LIMBS'`): every definition takes `(LIMBS : Nat)` first, calls inside the unit
  pass it on; a `Uint<LIMBS>` / `Self` / `[Limb; LIMBS]` value is the list of its limbs `List (BitVec 64)`, little endian:
  `x.limbs` is `x`, `Self { limbs }` / `Uint::new(limbs)` is `limbs`, `[Limb::ZERO; LIMBS]` is `List.replicate LIMBS 0#64`,
  `x.limbs[i]` is `x.getD i 0#64` (total; inside `while i < LIMBS` on a `LIMBS`-limb value the default is never taken),
  `arr[i] = e` / `arr[i] op= e` is a fresh `let arr' := arr.set i e`; indices are `Nat`s (the counter, literals, `+`);
  `Limb(e)`, `Limb::ZERO/ONE/MAX`, `Limb::BITS`; methods resolve by the receiver's type: on a `Limb` to the `Limb` unit, on a
  `Uint` to the `Uint` unit, on a choice to the ConstChoice unit; inside `impl Limb`/`impl Uint` a bare `adc(..)` is the
  imported free function (units listed under `use`), never the method of the same name;
  a fourth `while` form:
    - `let mut i = K; while i < BOUND { ..; i += k; }` with literal K, k >= 1, a `Nat` bound (`LIMBS`) and a body that may
      use `i` as an index becomes an auxiliary definition `<fn>_loop<j> captured.. : Nat → Nat → state.. → state` by
      recursion on a fuel argument (called with BOUND - K, which always suffices); the second `Nat` is the current `i`,
      and every round re-tests `i < BOUND` exactly like the `while` (`if i < BOUND then .. recurse with i + k else state`).
      state = the outer variables the body assigns (arrays included), captured = the other outer variables it reads, both
      in the order of their declaration in the function (not of their use: reordering the statements of the body keeps
      the signature).  An untyped state variable (`let mut carry = 1;`) gets the one integer width that type-checks the
      body (tried: 8, 32, 64, 128; none or several -> unsupported).

Fourth unit group (written to lean/CB/Gen/Encoding.lean, imports CB.Gen.Prim): the word-level helpers of the encoders /
decoders — the constant-time hex decoder `decode_nibble`, `decode_hex_byte` of src/uint/encoding.rs (namespace
CB.Gen.Encoding).  Subset extensions used there:
  `u16`; the SIGNED integer types i8 i16 i32 i64 i128: the same `BitVec w` (two's complement pattern), but `>>` is the
  arithmetic shift `BitVec.sshiftRight`, `<` `>` `<=` `>=` are the signed comparisons (`BitVec.slt` / `BitVec.sle`), `as` FROM a
  signed type to a wider type sign-extends (`BitVec.signExtend`; to a narrower or equally wide type it keeps the low bits,
  and `as` from an unsigned type zero-extends whatever the target), `+ - * & | ^ <<` and unary `-` are the operations
  on the pattern (release semantics: wrapping); literals with a signed suffix (`0x2fi16`) and `let x: i16 = -1;`;
  a fixed array of words `[u8; 2]` (parameter type) is the tuple of its elements, `bytes[K]` with a literal K its component.
Second unit of that file: the primitive conversions `impl<const LIMBS: usize> Uint<LIMBS> { from_u8, from_u16, from_u32,
from_u64, from_word, from_wide_word }` of src/uint/from.rs (namespace CB.Gen.Encoding.Uint; the 64-bit configuration).
Subset extensions used there:
  `assert!(cond, "message");` at the START of a body (before any other statement): the function `f` is translated as if
  the assertions held, and their conjunction becomes a second definition `f_asserts : <same parameters> → Bool` (emitted
  with `f`, like the loop definitions) — "the call panics" is `f_asserts .. = false`; comparisons between limb counts
  (`LIMBS >= 1`) are `decide`d on `Nat`; a function with assertions cannot be called from another translated function
  (its panic would be lost), an `assert!` anywhere else is outside the subset;
  `arr[i].0 = e` / `arr[i].0 op= e` (the word inside limb `i`): `arr[i] = Limb(e)` / `arr[i] = Limb(arr[i].0 op e)`.
Fifth unit group (round 4; written to lean/CB/Gen/MulRows.lean, imports CB.Gen.Chains): the multiplication rows —
`impl Limb { saturating_mul, wrapping_mul, mul_wide }` (src/limb/mul.rs; namespace CB.Gen.MulRows.Limb; `Limb::mac` is in the
Chains unit) and the slice function `schoolbook_multiplication` of src/uint/mul.rs (namespace CB.Gen.MulRows;
`schoolbook_squaring` is wanted too and reported `missing` until `Limb::shr` / `Limb::overflowing_add` are in a unit).
Subset extensions used there:
  slices `&[Limb]` / `&mut [Limb]`: the list of the limbs, `s.len()` is `s.length` (a `Nat`);
  a `const fn` WITHOUT a return type (unit option `private='any'`) that has `&mut [Limb]` parameters RETURNS the final values
  of those parameters (a tuple in parameter order) — the standard functional translation of in-place updates;
  a guard `if cond { panic!(".."); }` of such a function is dropped and recorded as a comment in the generated definition:
  the negated condition is a PRECONDITION, stated by the bridge theorems (`lo.len() == lhs.len()`, `hi.len() == rhs.len()`);
  NESTED `while` loops of the fourth form: an inner loop becomes an auxiliary definition of its own, emitted before and called
  from the outer loop's auxiliary definition (`<fn>_loop1` = outer, `<fn>_loop2` = inner); the inner bound may be `s.len()` or
  the outer counter; after a loop from 0 with step 1 the counter is the bound (`i + j` after the inner loop is `i + rhs.len()`);
  the state of a loop = every outer variable assigned at any depth of its body (the body's own `let`s are local);
  index arithmetic on `Nat`: `let k = i + j;`, `+`, `*` and `-` (truncated: equal to `usize` wherever Rust does not overflow,
  e.g. `k - lhs.len()` under `k >= lhs.len()`), comparisons of indices;
  an `if c { .. } else { .. }` STATEMENT (also `else if`): a conditional update of every outer variable one of the branches
  assigns — `let p := (if c then (<lets> (state..)) else (<lets> (state..)))`, then the variables are re-bound to the
  components; an index comparison is the `Nat` proposition itself (`k ≥ lhs.length`), a `bool` is `b = true`;
  destructuring assignment `(lv, lv, ..) = e;` with targets `x`, `arr[i]`, `arr[i].0`, `_` (right-hand side first, targets
  left to right); `u64::saturating_mul` (the double-width product has a zero high half, else MAX);
  methods of `Limb` are looked up in the Chains unit first, then in the units listed under `limb_more`.
Sixth unit group (round 4) (written to lean/CB/Gen/Modular.lean, imports CB.Gen.Chains): the modular add / sub / neg layer (C07) —
`impl Limb { bitand, bitor, not, wrapping_neg, shl1 }` (src/limb/{bit_and,bit_or,bit_not,neg,shl}.rs; namespace
CB.Gen.Modular.Limb), `impl<const LIMBS: usize> Uint<LIMBS> { bitand, bitand_limb, from_word, overflowing_shl1, add_mod,
add_mod_special, double_mod, sub_mod, sub_mod_with_carry, sub_mod_special, neg_mod, neg_mod_special }`
(src/uint/{bit_and,from,shl,add_mod,sub_mod,neg_mod}.rs; namespace CB.Gen.Modular.Uint) and the free forwarders
`add_montgomery_form`, `double_montgomery_form`, `sub_montgomery_form` (src/modular/{add,sub}.rs; CB.Gen.Modular.Form).
Subset extensions used there (switched on per unit, so the earlier generated files do not change):
  the methods of one Rust type spread over SEVERAL units: a method call on a `Limb` / `Uint` value resolves to the unit
  itself, then to the primary unit of the type (`limb` / `uint`, the Chains unit), then to the units listed under
  `more_limb` / `more_uint`; `wrapping_neg/add/sub/mul` on a `Limb` receiver is the translated `Limb` method when one
  exists (otherwise the builtin word operation, as before);
  assignment through a place expression: `x.limbs[i] = e`, `x[i].0 = e`, `x.limbs[i].0 = e` (and the compound forms) are
  `x.set i e` / `x.set i (Limb(e))`; `Self::ZERO` / `Uint::ZERO` of a `Uint<LIMBS>` is `List.replicate LIMBS 0#64` (the crate
  defines it as `from_u8(0)`); `Limb::HI_BIT` / `Self::HI_BIT` is the constant 63 (`Limb::BITS - 1`);
  `skip_asserts`: `assert!(cond, "msg");` is skipped like `debug_assert!` (the translation is the function's value on the
  inputs that do not panic — `from_word` asserts `LIMBS >= 1`; panic freedom is a separate property);
  `free_generic`: free functions `const fn f<const LIMBS: usize>(a: &Uint<LIMBS>, m: &Odd<Uint<LIMBS>>) -> Uint<LIMBS>`
  (a unit with `self_ty=None`, `generic='LIMBS'`, gathered from whole files): `Uint<LIMBS>` is the limb list, `Odd<Uint<LIMBS>>`
  a newtype over it (`.0` is the value).
Last unit of that file (namespace CB.Gen.Modular.Reduction): src/modular/reduction.rs `montgomery_reduction_inner` (nested `while`
loops over `&mut [Limb]` slices) and `montgomery_reduction` (C08).  Extensions (again per unit: `slices`, `nat_loops`):
  `&[Limb]` / `&mut [Limb]` parameters are limb lists, `s.len()` is `s.length` (a `Nat`), `s[i]` / `s[i] = e` as for arrays;
  a function with `&mut [Limb]` parameters RETURNS their final values, in parameter order, in front of its result
  (`montgomery_reduction_inner .. : upper' × lower' × meta_carry`); a call is supported in the form `let r = f(&mut a.limbs, ..);`
  (the passed variables are rebound to the returned values), anywhere else it is unsupported;
  parameter lists with parentheses (`lower_upper: &(Uint<LIMBS>, Uint<LIMBS>)`), `let (mut a, mut b) = *pair;`;
  `let mut x;` (declared, assigned later): a scratch variable — each assignment binds it for the rest of the enclosing block, it
  is never loop state, and reading it where no assignment of the same block precedes is unsupported;
  tuple assignment `(a, b) = e;`;  `usize` subtraction in indices and loop bounds (`upper[i + j - nlimbs]`, `j < nlimbs - i`) as
  truncated `Nat` subtraction (equal whenever the Rust expression does not overflow);
  a fifth `while` form (`nat_loops` units, used for every loop of the unit):
    - `while j < BOUND { ..; j += k; }` where the counter is a literal OR a symbolic `Nat` at entry and may be used after the loop
      (`j` runs on from the first inner loop into the second), BOUND any `Nat` expression the loop does not change, and the body
      may contain further such loops: `<fn>_loop<n> captured.. : Nat → Nat → state.. → Nat × state` by recursion on a fuel
      argument (called with BOUND - start), re-testing `j < BOUND` every round and returning the final counter in front of
      the state; state = the outer variables assigned in the body or in a loop nested in it (declaration order).
Seventh unit group (round 4) (round 4, written to lean/CB/Gen/Shifts.lean, imports CB.Gen.Prim): the shift / bit-query layer of C05 —
`impl Limb { shl, shl1, shr, shr1, bits, leading_zeros, trailing_zeros, trailing_ones, bitor, select }`
(src/limb/{shl,shr,bits,bit_or,cmp}.rs; namespace CB.Gen.Shifts.Limb) and `impl<const LIMBS: usize> Uint<LIMBS> { select,
overflowing_shl1, shl_limb, shr1, shr1_with_carry, overflowing_sh{l,r}_vartime, sh{l,r}_vartime, wrapping_sh{l,r}_vartime,
overflowing_sh{l,r}, sh{l,r}, wrapping_sh{l,r} }` (src/uint/{cmp,shl,shr}.rs; namespace CB.Gen.Shifts.Uint), and the free
functions `bit`, `leading_zeros`, `trailing_zeros`, `trailing_ones` over a limb slice of src/uint/bits.rs (namespace
CB.Gen.Shifts.Bits; unit option `cut='\nimpl<'`: only the text in front of the first `impl` block).  Subset extensions:
  a slice parameter `&[Limb]` is the list of its limbs, `limbs.len()` its length (a `Nat`); `i as u32` of a `Nat` counter is
  `BitVec.ofNat 32 i`; an untyped `let x = 1 << n;` gets the one integer width with which the rest of the block translates;
  a unit may name further units holding methods of `Limb` / `Uint` (`limb_more=[..]`, `uint_more=[..]`), searched first;
  `Limb::HI_BIT` / `Self::HI_BIT` (63), `Self::BITS` inside `impl Limb` (64); inside a generic `impl Uint`: `Self::ZERO`
  (`List.replicate LIMBS 0#64`) and `Self::BITS` (`BitVec.ofNat 32 (64 * LIMBS)`, the `u32` constant);
  `x.wrapping_shl(s)` / `x.wrapping_shr(s)` (amount masked to the width), `x.trailing_zeros()` (`BitVec.ctz x`),
  `x.trailing_ones()` (`BitVec.ctz (~~~x)`), `/` and `%` on words, `<<` / `>>` by a loop counter kept as a `Nat`
  (amount modulo the width, like every non-constant amount);
  `name.limbs[i] = e` (the same as `name[i] = e`), turbofish in paths (`Uint::<LIMBS>::new`), the last assignment of a block
  without `;`, string literals (only as the message of `.expect("..")`);
  `e as usize` of a word in a generic unit is its value as a `Nat` (`(e).toNat`): limb indices and counts are `Nat`s, and
  `a - b` on them is the truncated `Nat` subtraction (Rust panics on underflow; never reached where the index is in range);
  a `ConstCtOption<T>` (parameter, local or result) is the pair (value, is_some mask): `ConstCtOption::some(v)` = `(v, ~~~0)`,
  `::none(v)` = `(v, 0)`, `::new(v, c)` = `(v, c)`; `o.unwrap_or(def)` on a `ConstCtOption<Uint>` is the
  `Uint::select(&def, &o.value, o.is_some)` it is defined as; `o.expect("..")` is the VALUE `o.1` — the assertion it makes is
  not part of the translation, it is a statement about the hand-written model (outer `Option`), discharged by the bridge
  theorems `model = some (translated ..)`;
  an early return `if cond { return e; }` (no `else`) at the top level of a function: `if cond then e else <the rest>`;
  body-local `let mut` variables of a `while` body may be re-assigned (they are not loop state);
  the limb count `LIMBS` is passed to every auxiliary loop definition of a generic unit translated by the two forms below and by
  the fourth form above (it was captured there already: the bound mentions it);
  the fourth `while` form also with a `usize` VARIABLE as start value (`let mut i = shift_num; while i < LIMBS { .. }`; fuel
  `LIMBS - shift_num`), with a `Nat` bound expression (`LIMBS - shift_num`) and with a word bound (`while i < shift_bits`, both
  `u32`: compared as `Nat`s, fuel `shift_bits.toNat`);
  a fifth `while` form:
    - `while i > 0 { i -= 1; ..; }` with a `usize` counter (`let mut i = LIMBS;`, or the counter left by a preceding
      `while i < BOUND` loop, whose value is BOUND) becomes `<fn>_loop<j> captured.. : Nat → state.. → state` by structural
      recursion on the counter itself: round `n + 1` runs the body with `i = n`; state / captured as in the fourth form
      (untyped accumulators `let mut count = 0;` get their width the same way).
Eighth unit group (round 4, G13; written to lean/CB/Gen/IntSign.lean, imports CB.Gen.Chains): the SIGN layer of `Int<LIMBS>` —
`impl Limb { select, bitxor }` (src/limb/{cmp,bit_xor}.rs; namespace CB.Gen.IntSign.Limb), `impl Uint<LIMBS> { select,
wrapping_neg_if, bitxor }` (src/uint/{cmp,neg,bit_xor}.rs; namespace CB.Gen.IntSign.Uint; calls into the Chains unit) and
`impl Int<LIMBS> { most_significant_word, is_negative, is_positive, abs_sign, abs, new_from_abs_sign, wrapping_neg_if, select,
is_nonzero, eq, lt, gt, invert_msb, is_min, overflowing_add, checked_add, wrapping_add, overflowing_neg, wrapping_neg,
checked_neg }` (src/int/{sign,neg,cmp,add}.rs, src/int.rs; namespace CB.Gen.IntSign.Int).  Subset extensions used there:
  `Int<LIMBS>` (`Self` inside `impl Int`) is a NEWTYPE over `Uint<LIMBS>`: the same list of limbs (`List (BitVec 64)`), `x.0` is
  the `Uint`, `Self(u)` / `Int(u)` the `Int`; methods on an `Int` value resolve to the `Int` unit, methods on a `Uint` value to the
  Chains unit, then to the units listed under `uint_more` (also from inside an `impl Uint` unit that does not define them);
  `ConstCtOption<T>` is the PAIR (value, is_some mask): `ConstCtOption::new(v, c)` is `(v, c)` (the value is carried even when
  the mask is falsy, exactly like the Rust struct);
  an `if c { .. } else { .. }` EXPRESSION (final expression of a block or operand; also `else if`): `(if c then .. else ..)`, the
  branches may have their own `let`s but may not assign outer variables; `Self::LIMBS` / `LIMBS` compared with a literal is the
  `Nat` proposition (`LIMBS = 0`); `Word::ZERO` / `Word::ONE`;
  `u.to_words()` (the `[Word; LIMBS]` of a `Uint`: the same list, an element is the word itself) and `words[LIMBS - 1]` (total
  `getD`, `Nat` index arithmetic);
  the associated CONSTANTS `Int::{MAX, MIN, ONE, SIGN_MASK}`, `Uint::{MAX, ONE}` are fixed definitions over `LIMBS` (table
  `CONSTS`: their defining expressions use `Uint::shr` / `from_u8`, which are not in this unit); the defining TEXT in
  src/int.rs / src/uint.rs is compared with the expected one on every run — if it differs the constant is reported `kept_last`
  and every function that mentions it is not re-translated (`kept_last`).
  For `Uint::from_u128` (src/uint/from.rs, emitted in the `uint_from` unit of Encoding.lean): constant index arithmetic with `/`
  and `Limb::BYTES` (`16 / Limb::BYTES` is `2`); a call at ANOTHER limb count through a type alias, `U64::from_u64(x)` =
  `from_u64 1 x` (`U<bits>` = `Uint<bits / 64>`), also when the callee has `assert!`s: they are conjoined to the caller's
  `<fn>_asserts` at that limb count (`from_u64_asserts 1 x`; the arguments must be expressions over the caller's parameters).
Ninth unit group (round 4; written to lean/CB/Gen/SafeGcd.lean, imports CB.Gen.Prim): the word-level core of safegcd —
`iterations`, `inv_mod2_62`, `jump` (and its nested `const fn min`) of src/modular/safegcd.rs (namespace CB.Gen.SafeGcd; 64-bit
configuration; the hook module `mod verif { .. }`, which only re-exports them, is cut out: unit option `skip_mods`).
Subset extensions used there (those that change how a body is read are enabled per unit by `defer_lets=True`):
  slices of plain words `&[Word]` / `&[u64]`: the list of the words, `s[i]` is `s.getD i 0#64` of type `u64`;
  `type Name = <type>;` aliases of the file (`type Matrix = [[i64; 2]; 2];`), arrays of fixed arrays (the tuple of the rows),
  array LITERALS `[a, b]` (a tuple), `t[K][L]` (components), `t[K] = e` and `(t[0], t[1]) = (..)` on a fixed array (the variable
  is re-bound to the tuple with component K replaced; the right-hand side of a destructuring assignment first);
  block EXPRESSIONS `{ stmts; e }`, cfg-attributed inner blocks (`#[cfg(target_pointer_width = "32")] { .. }` is removed, the
  64-bit twin stays), `if c { a } else { b }` as an EXPRESSION (`if c then a else b`);
  a nested `const fn` item is cut out of the body and translated as a function of the unit under its own name (`min`);
  unsigned `/` and `%` by a non-zero CONSTANT (`BitVec` `udiv` / `umod`); `trailing_zeros()` (`BitVec.ctz`, the width for zero);
  `let (a, b, c) = (62, e1, e2);` with untyped literals among the components: component-wise `let`s, every right-hand side
  evaluated before any name is bound; the untyped one stays an untyped counter until a use fixes its type;
  a `let x = <expression of untyped literals and typed variables>;` whose integer type only its USE fixes
  (`let mask = (1 << n) - 1; .. & mask`) is translated at the use, at the type wanted there — refused if a variable it reads
  has been re-bound in between;
  `loop { pre..; if c { break; } post.. }` (exactly one `break`, in a top-level `if` of the body): a fifth loop form, the
  auxiliary definition `<fn>_loop<k> captured.. : Nat → state.. → state` by recursion on a FUEL argument
  (`| 0, s => s | n + 1, s => pre; if c then s' else post; recurse n s''`).  A `loop` has no syntactic trip bound: the fuel is
  an INPUT of the translation (unit option `fuel={'jump': '64'}`; without it the function is not translated) and the bridge
  has to prove that the `break` is reached within it and that more fuel changes nothing (`src_jump_fuel_suffices`).  An
  untyped state variable (`steps = 62`) gets the integer type that type-checks the body (signed and unsigned candidates; all
  successful candidates must produce the same text).
Round 4, G15 (the rest of the multiplication layer, C03; all in lean/CB/Gen/MulRows.lean, whose earlier definitions are unchanged):
`impl Limb { overflowing_add, shr }` (src/limb/{add,shr}.rs; namespace CB.Gen.MulRows.LimbSq — a unit of its own in front of the
slice functions, because the Shifts file is generated later), with which `schoolbook_squaring` (five loops: `_loop1` rows from
`i = 1`, `_loop2` inner `while j < i`, `_loop3` / `_loop4` the doubling of `lo` / `hi`, `_loop5` the diagonal) translates;
the const-generic wrappers `uint_mul_limbs`, `uint_square_limbs` of src/uint/mul.rs (namespace CB.Gen.MulRows.Wrap) and the
non-`const` `adc_mul_limbs` of src/uint/mul/karatsuba.rs (namespace CB.Gen.MulRows.Karatsuba).  Subset extensions:
  `x.overflowing_add(y)` on a `Limb` receiver is the translated `Limb::overflowing_add` when a unit in reach has one (else the
  builtin word form, as before);
  a call as a STATEMENT `f(a, &mut x.limbs, &mut y.limbs);` (top level of a function only) of a translated function WITHOUT a
  return type (G10's convention: it returns the final values of its `&mut [Limb]` parameters, registered in `MUTOUT`): the
  returned slices are written back to `x`, `y` (`let p := f a x y; let x1 := p.1; let y1 := p.2`);
  unit option `generic2='RHS_LIMBS'` (with `free_generic`): a SECOND const generic — an explicit `Nat` argument after `LIMBS` of
  the functions whose signature mentions it, `Uint<RHS_LIMBS>` is a limb list, `Uint::<RHS_LIMBS>::ZERO` is
  `List.replicate RHS_LIMBS 0#64` (the parser now keeps the turbofish arguments of a path: `('path', path, [ids])`; a turbofish
  naming anything but the two generics is unsupported); such a function cannot be called from translated code;
  unit option `nonconst`: plain `fn`s are found too (`FN_NONCONST`; a return type is required; `want` picks `adc_mul_limbs`, not
  its `verif_` forwarder); unit option `panic_guards`: `if cond { panic!(".."); }` guards are dropped and recorded as
  `-- the source panics if: ..` (a precondition of the bridge theorems) also for functions WITH a return type (G11's `slices`
  convention: `adc_mul_limbs .. : out' × carry`).
Tenth unit group (round 4, G16; written to lean/CB/Gen/CmpMore.lean, imports CB.Gen.Chains and CB.Gen.Shifts): the remaining
compare / bit-operation / bit-query functions of C06 and C05 — `impl Limb { eq_vartime, bitxor, bitor, not }`
(src/limb/{cmp,bit_xor,bit_or,bit_not}.rs; namespace CB.Gen.CmpMore.Limb), the variable-time free functions `bit_vartime`,
`bits_vartime`, `trailing_zeros_vartime`, `trailing_ones_vartime` over a limb slice of src/uint/bits.rs (namespace
CB.Gen.CmpMore.Bits; unit options `cut`, `usize_nat`) and `impl<const LIMBS: usize> Uint<LIMBS> { is_odd, cmp, cmp_vartime,
bitor, wrapping_or, bitxor, wrapping_xor, not, bit, bit_vartime, bits, bits_vartime, leading_zeros, leading_zeros_vartime,
trailing_zeros, trailing_zeros_vartime, trailing_ones, trailing_ones_vartime, set_bit }` (src/uint/{cmp,bit_or,bit_xor,bit_not,
bits}.rs; namespace CB.Gen.CmpMore.Uint; the forwarders call the slice functions of CB.Gen.Shifts.Bits / CB.Gen.CmpMore.Bits
with `&self.limbs`, the limb list itself).  Subset extensions used there:
  `core::cmp::Ordering` is its discriminant as an `i8` (Rust defines `Less = -1, Equal = 0, Greater = 1`): the type is
  `BitVec 8`, `Ordering::Less/Equal/Greater` are `(-1#8)`, `0#8`, `1#8`; the literals `true` / `false`;
  an `if c { .. } else { .. }` EXPRESSION (also `else if`; as the final expression of a body, as the value of a `return`, or
  anywhere an expression stands): `(if c then (<lets>; e1) else (<lets>; e2))`, both branches of one type;
  a bare block statement `{ .. }` (its statements are inlined; a `let` in it that shadows is unsupported like everywhere);
  unit option `usize_nat`: `e as usize` of a word is its value as a `Nat` also in a unit that is not generic over `LIMBS`;
  a sixth `while` form, the SEARCH loop with a data-dependent exit:
    - `while i > 0 && cond(i) { i -= 1; }` (`usize` counter, the body is the decrement alone) becomes
      `<fn>_loop<j> captured.. : Nat → Nat` by structural recursion on the counter: `| 0 => 0`,
      `| n + 1 => if cond(n + 1) then <fn>_loop<j> .. n else n + 1` — the result is the final counter;
  `break`: `if cond { break; }` at the top level of the body of a `while i < BOUND` loop (fourth form) — every round
      re-tests the exit: `if cond then <the state at this point> else <the rest of the round, then recurse>`; the counter is not
      available after such a loop;
  `loop { ..; if i == 0 { return E; } i -= 1; }` as the LAST statement of a function (a count-down loop that is left only by
      `return`; the body may contain early returns `if c { return e; }`, no assignments to outer variables) becomes
      `<fn>_loop<j> captured.. : Nat → <result type>` by structural recursion on the counter, the two patterns being the two
      outcomes of the test `i == 0`: `| 0 => <body with i = 0>; E` and `| n + 1 => <body with i = n + 1>; <fn>_loop<j> .. n`;
      the function's value is the call with the counter's initial value (`LIMBS - 1`, truncated: for `LIMBS = 0` Rust's
      `usize` subtraction overflows — a panic — and the translation reads the default limb 0 at index 0).
Eleventh unit group (round 4, G17; written to lean/CB/Gen/DivLimbLoops.lean, imports CB.Gen.DivLimb and CB.Gen.Shifts): division of
a `Uint<L>` by a LIMB (C02) — the free functions `div_rem_limb_with_reciprocal`, `rem_limb_with_reciprocal`,
`rem_limb_with_reciprocal_wide` of src/uint/div_limb.rs (namespace CB.Gen.DivLimbLoops: `u.shl_limb(reciprocal.shift)` of the
Shifts unit, then the count-down loop(s) `while j > 0 { j -= 1; .. }` of `div2by1` of the DivLimb unit — fifth form of the
seventh group, one auxiliary definition per loop, `_loop1` / `_loop2` for the hi / lo halves of the wide form), the wrappers
`impl Uint { div_rem_limb_with_reciprocal, div_rem_limb, rem_limb_with_reciprocal, rem_limb }` of src/uint/div.rs (namespace
CB.Gen.DivLimbLoops.Uint) and `mul_rem` (namespace CB.Gen.DivLimbLoops.MulRem, a unit that is not generic).  Subset extensions:
  unit option `generic_alias='L'`: the file names its const generic `L` (`fn f<const L: usize>(u: &Uint<L>, ..)`); the word `L` of
  the file is read as `LIMBS` before parsing, so that `Uint<L>`, `[Limb::ZERO; L]`, `let mut j = L;`, `Uint::<L>::new(q)` are the
  forms of a `free_generic` unit;
  `u.as_limbs()` (the `[Limb; LIMBS]` of a `Uint`: the limb list itself); a pair of references `(&Uint<L>, &Uint<L>)` as a
  parameter (the pair of the limb lists, `lo_hi.0` / `lo_hi.1`);
  `Reciprocal::new(d)` (a struct's associated function) called from another unit: resolved in the unit among `use` whose
  namespace ends in `.Reciprocal`;
  a call from a NON-generic function into a generic unit whose `Uint` arguments are `Uint::from_words([w0, .., wk-1])`: the
  callee at the limb count `k` of the literal, the argument the list `[w0, .., wk-1]` of those words
  (`rem_limb_with_reciprocal 2 [lo, hi] rec_`);
  a Rust local whose name is a Lean keyword (`let rec = ..`) gets a trailing underscore (`rec_`).
Also in that file (namespace CB.Gen.DivLimbLoops.Vartime): the private helpers `impl Uint { shl_limb_vartime, shr_limb_vartime }` of
src/uint/div.rs (the sub-limb shifts of `div_rem_vartime` over the low `limbs_num` limbs).  Subset extensions:
  unit option `usize_param_nat`: a `usize` PARAMETER (`limbs_num: usize`) is a `Nat` (as limb counts and indices are), `limbs_num - 1`
  the truncated `Nat` subtraction (Rust panics on underflow: `1 <= limbs_num` is a precondition of the bridge theorems);
  a seventh `while` form:
    - `let mut i = <Nat expression>; while i > 0 { ..; i -= 1; }` with the decrement as the LAST statement of the body becomes
      `<fn>_loop<j> captured.. : Nat → state.. → state` by structural recursion on the counter: round `n + 1` runs the body with
      `i = n + 1` and recurses with `n` (the fifth form of the seventh group, decrement FIRST, runs it with `i = n`).
Twelfth unit group (round 4, G18; written to lean/CB/Gen/SafeGcdLimbs.lean, imports CB.Gen.SafeGcd): the LIMB arithmetic of
safegcd (C10) — `impl<const LIMBS: usize> UnsatInt<LIMBS> { add, mul, neg, shr, eq, is_negative, lowest, select, leading_zeros,
bits }` (namespace CB.Gen.SafeGcdLimbs.UnsatInt) and the free functions `fg`, `de`, `divsteps` (namespace CB.Gen.SafeGcdLimbs;
`jump` / `iterations` are the ninth group's, unit option `use=['safegcd']`) of src/modular/safegcd.rs, 64-bit configuration.  Subset extensions (unit option `unsat`, so the earlier generated files do not change):
  `UnsatInt<LIMBS>` (`Self` inside `impl UnsatInt`) is a NEWTYPE over `[u64; LIMBS]`: the list of its 62-bit words
  (`List (BitVec 64)`, little endian, `LIMBS : Nat` explicit); `x.0` is that list, `x.0[i]` a `u64` (`x.getD i 0#64`: total, the
  default is never taken inside `while i < LIMBS`), `x.0[i] = e` is `x.set i e`; methods on an `UnsatInt` value and
  `UnsatInt::f(..)` resolve to the `unsat` unit (also from the free-function unit that follows it in the same file);
  the associated constants are READ from the source on every run: `LIMB_BITS` (`pub const LIMB_BITS: usize = <n>;`, used as a
  shift amount / index), `MASK` (`u64::MAX >> (<k> - Self::LIMB_BITS)`, emitted as `((~~~0#64) >>> <k - n>)`), `ZERO`
  (`Self([0; LIMBS])`: `List.replicate LIMBS 0#64`), also through a turbofish (`UnsatInt::<LIMBS>::MASK`); a constant whose
  defining text has another form makes every function that mentions it `kept_last`;
  `let (a, mut b, c) = if cond { (x, y, z) } else { (x, 0, 0) };`: an `if` EXPRESSION whose branches are tuples — the untyped
  literals of one branch take the component types of the other branch (the one without untyped literals is typed first);
  a `let` that shadows a PARAMETER (`let (other, ..) = ..;` in `mul`) is a fresh Lean name, like every re-binding;
  `-x as u64` on an `i64` (unary minus binds tighter than `as`; the pattern is kept), `x as u128` of an `i64` sign-extends;
  a `while i < LIMBS - 1` bound (truncated `Nat` subtraction: for `LIMBS = 0` Rust's `usize` subtraction panics, the
  translation runs zero rounds) — the fourth `while` form, unchanged.
  `divsteps`: `while i < m` with `m` a `usize` WORD computed from data (`iterations(f_0.bits(), g.bits())`) — the fourth `while`
  form with a word bound (compared as `Nat`s, fuel `m.toNat`); the untyped `let mut delta = 1;` is loop state, typed by the one
  width that type-checks the body (64: an argument of `jump`); `&f.0` of an `UnsatInt` passes the word list to a `&[u64]`
  parameter; `let mut matrix;` (declared at the top, assigned and used only inside the loop body, first by the destructuring
  assignment `(delta, matrix) = jump(..);`) is a scratch variable of the body: that assignment is read as
  `let (delta_new, matrix) = jump(..); delta = delta_new;` (`localize_declared`; same values, same order), so `matrix` is a
  body-local `let` and not loop state; `debug_assert!(g.eq(..))` after the loop is skipped (it is hypothesis H_divsteps_done of
  C10, reported by the model's `.g`).
  Last unit of that file (namespace CB.Gen.SafeGcdLimbs.Inverter; unit option `inverter`): `SafeGcdInverter::norm` of
  `impl<const SAT_LIMBS: usize, const UNSAT_LIMBS: usize> SafeGcdInverter<SAT_LIMBS, UNSAT_LIMBS>` — the unit's limb count is
  `UNSAT_LIMBS` (`UnsatInt<UNSAT_LIMBS>` is the word list; calls into the `UnsatInt` unit pass it on as that unit's `LIMBS`);
  `&self` is the TUPLE of the struct's fields in declaration order, read from `struct SafeGcdInverter<..> { modulus, adjuster,
  inverse }` on every run (`self.modulus` is component 1; a field of another type than `UnsatInt<UNSAT_LIMBS>` / an integer makes
  the unit's functions `kept_last`); assignment to a `mut` parameter (`value = ..`) re-binds it like any variable.
Round 4, G19 (the rest of the fixed-size inverter, C10; two units APPENDED to lean/CB/Gen/SafeGcdLimbs.lean, whose earlier definitions
are unchanged): `impl UnsatInt<LIMBS> { from_uint, to_uint }` (namespace CB.Gen.SafeGcdLimbs.Convert) and
`impl SafeGcdInverter<SAT_LIMBS, UNSAT_LIMBS> { new, inv }` (namespace CB.Gen.SafeGcdLimbs.InverterApi).  Subset extensions:
  unit option `limb_convert`: the MACRO `impl_limb_convert!` is expanded in the unit's text before parsing, by substitution — the
  macro's parameter list and body are READ from src/modular/safegcd/macros.rs on every run, every invocation
  `impl_limb_convert!(a, b, c, d, e, f);` is replaced by the body with `$name` := the argument (an `expr` argument in parentheses
  unless it is a path / method chain / literal, a leading `&` dropped; a `ty` argument as it stands; `<T>::X` read as `T::X`).
  The nested `const fn min(a, b) { if a > b { b } else { a } }` of the macro must have exactly that text (else the functions are
  `kept_last`); a call `min(x, y)` on `Nat`s is `(if x > y then y else x)`.  `fn f<const SAT_LIMBS: usize>(..)`: the function's
  own const generic is the unit's `generic2` (an explicit `Nat` argument after `LIMBS`); `panic_guards`: the guard
  `if LIMBS != safegcd_nlimbs!(..) { panic!(..) }` is dropped and recorded as `-- the source panics if: ..`;
  `[0; LIMBS]` / `[0 as Word; SAT_LIMBS]` is `List.replicate n 0#64` (a list of plain words), `Self(words)` the `UnsatInt`,
  `Uint::from_words(words)` the `Uint`, `u.as_words()` the word list of a `Uint`, `words.len()` its length, `arr[i] op= e` on a
  word list `arr.set i (arr[i] op e)`; `Word::BITS as usize` is the `Nat` 64; `%` and `/` on `Nat`s (bit cursors), `let (i, o) =
  (bits % 64, bits % 62);`, an `if c { 1 } else { 0 }` expression of type `Nat`; `x >> i` / `x << o` by a `Nat` (amount modulo 64,
  like every non-constant amount);
  an eighth `while` form:
    - `let mut bits = 0; while bits < total { ..; bits += <Nat expression of the body's locals>; }` — the fourth form with a
      DATA-DEPENDENT step: `<fn>_loop<j> captured.. : Nat → Nat → state.. → state` by recursion on a fuel argument, called with
      `total - 0`; every round re-tests `bits < total`.  The fuel suffices iff every step is `>= 1`: a proof obligation of the
      bridge (`convLoop_fuel_succ` of CB/Lemmas/GenSafeGcdConv.lean), not an assumption of the translation.
  unit option `inverter_api`: `Self { modulus: e1, adjuster: e2, inverse: e3 }` of `SafeGcdInverter` is the tuple of the fields in
  declaration order (any order in the literal); `Odd<Uint<SAT_LIMBS>>` is a newtype (`.0`); `UnsatInt::from_uint(x)` /
  `x.to_uint()` resolve to the `Convert` unit and get BOTH limb counts (`from_uint UNSAT_LIMBS SAT_LIMBS x`: a callee with the same
  two const generics is callable); `self.norm(..)` resolves to the `Inverter` unit; `UnsatInt::MINUS_ONE` / `UnsatInt::ONE` are READ
  from the source on every run (`Self([Self::MASK; LIMBS])` -> `List.replicate LIMBS MASK`; `{ let mut ret = Self::ZERO;
  ret.0[K] = V; ret }` -> `(List.replicate LIMBS 0#64).set K V#64`; another defining text -> `kept_last`).
"""
import os, re, sys, json

VERIF = os.path.dirname(os.path.dirname(os.path.abspath(__file__)))
REPO = os.environ.get('CB_REPO', '/repo')
GEN = os.path.join(VERIF, 'lean', 'CB', 'Gen')

WIDTH = {'u8': 8, 'u32': 32, 'u64': 64, 'u128': 128, 'Word': 64, 'WideWord': 128, 'usize': 64}


class Unsupported(Exception):
    pass


# options of the unit being translated (set in main(); `skip_asserts`, `free_generic`, `slices`, `nat_loops`)
OPTS = {}
# functions with `&mut [Limb]` parameters: (namespace, name) -> positions of those parameters; the translation returns
# the new values of those slices, in parameter order, followed by the function's result
MUTP = {}
# (G10's convention) functions WITHOUT a return type that return the final values of their `&mut [Limb]` parameters:
# (namespace, name) -> positions of those parameters (needed by a STATEMENT call `f(a, &mut x.limbs);`)
MUTOUT = {}
# functions with a SECOND const generic (unit option `generic2`): not callable from translated code
GENERIC2_FNS = set()


# ------------------------------------------------------------------ tokenizer

TOK = re.compile(r'\s*(?:(//[^\n]*)|(0x[0-9a-fA-F_]+|\d[\d_]*)(u8|u32|u64|u128|usize)?|([A-Za-z_][A-Za-z0-9_]*)|(<<=|>>=|::|->|<<|>>|==|!=|<=|>=|&&|\|\||\+=|-=|\*=|\|=|&=|\^=|[-+*/%&|^!<>=(){}\[\],;:.#])|("(?:[^"\\\\]|\\\\.)*"))')


def tokenize(s):
    pos, out = 0, []
    while pos < len(s):
        m = TOK.match(s, pos)
        if not m:
            if s[pos:].strip() == '':
                break
            raise Unsupported('cannot tokenize at: ' + s[pos:pos + 30])
        pos = m.end()
        if m.group(1):
            continue
        if m.group(2):
            out.append(('num', int(m.group(2).replace('_', ''), 0), m.group(3)))
        elif m.group(4):
            out.append(('id', m.group(4)))
        elif m.group(6):
            out.append(('str', m.group(6)))      # a string literal (the message of `.expect("..")`)
        else:
            out.append(('op', m.group(5)))
    return out


class SInt(int):
    """bit width of a SIGNED integer type (an `int`, so everything that handles widths handles it; only `>>`, the order
    comparisons and `as` look at the signedness)"""


WIDTH.update({'u16': 16})
SIGNED = {'i8': SInt(8), 'i16': SInt(16), 'i32': SInt(32), 'i64': SInt(64), 'i128': SInt(128)}
LIT_SUFFIX = set(SIGNED) | {'u16'}


def merge_suffixes(toks):
    """`0x2fi16` is tokenized as the number 0x2f followed by the identifier `i16` (the number pattern knows only the
    unsigned suffixes): glue them (a number directly followed by a type name is nothing else in Rust)"""
    out = []
    for tok in toks:
        if tok[0] == 'id' and tok[1] in LIT_SUFFIX and out and out[-1][0] == 'num' and out[-1][2] is None:
            out[-1] = ('num', out[-1][1], tok[1])
        else:
            out.append(tok)
    return out


_tokenize_unsigned = tokenize


def tokenize(s):
    return merge_suffixes(_tokenize_unsigned(s))


# ------------------------------------------------------------------ parser (expressions, statements -> AST tuples)

ASSIGN_OPS = ('=', '+=', '-=', '*=', '|=', '&=', '^=', '<<=', '>>=')


class P:
    def __init__(self, toks):
        self.t, self.i = toks, 0
        self.nostruct = False

    def peek(self, k=0):
        return self.t[self.i + k] if self.i + k < len(self.t) else ('eof',)

    def eat(self, kind=None, val=None):
        tok = self.peek()
        if kind and tok[0] != kind or (val is not None and tok[1] != val):
            raise Unsupported(f'expected {kind} {val}, got {tok}')
        self.i += 1
        return tok

    def at(self, val):
        tok = self.peek()
        return tok[0] in ('op', 'id') and tok[1] == val

    def at_end(self):
        tok = self.peek()
        return tok[0] == 'eof' or (tok[0] == 'op' and tok[1] == '}')

    # precedence climbing, Rust precedences
    LEVELS = [['||'], ['&&'], ['==', '!=', '<', '>', '<=', '>='], ['|'], ['^'], ['&'], ['<<', '>>'], ['+', '-'], ['*', '/', '%']]

    def expr(self, lvl=0):
        if lvl == len(self.LEVELS):
            return self.cast()
        lhs = self.expr(lvl + 1)
        while self.peek()[0] == 'op' and self.peek()[1] in self.LEVELS[lvl]:
            op = self.eat()[1]
            rhs = self.expr(lvl + 1)
            lhs = ('bin', op, lhs, rhs)
        return lhs

    def cast(self):
        e = self.unary()
        while self.at('as'):
            self.eat()
            e = ('as', e, self.type_())
        return e

    def type_(self):
        t = self.eat('id')[1]
        if self.at('<'):                           # NonZero<Limb>
            self.eat()
            t = f'{t}<{self.type_()}>'
            self.eat('op', '>')
        return t

    def unary(self):
        if self.at('!'):
            self.eat(); return ('not', self.unary())
        if self.at('-'):
            self.eat(); return ('neg', self.unary())
        if self.at('&'):
            self.eat()
            if self.at('mut') and self.peek(1)[0] == 'id':
                self.eat()                         # `&mut place`
            return self.unary()        # references are transparent
        if self.at('*'):
            self.eat(); return self.unary()
        return self.postfix()

    def args(self):
        self.eat('op', '(')
        save, self.nostruct = self.nostruct, False
        a = []
        while not self.at(')'):
            a.append(self.expr())
            if self.at(','):
                self.eat()
        self.eat('op', ')')
        self.nostruct = save
        return a

    def postfix(self):
        e = self.primary()
        while True:
            if self.at('.'):
                self.eat()
                tok = self.eat()
                if tok[0] == 'num':
                    e = ('field', e, tok[1])
                elif tok[0] == 'id':
                    if self.at('('):
                        e = ('method', tok[1], e, self.args())
                    else:
                        e = ('nfield', e, tok[1])
                else:
                    raise Unsupported('postfix ' + str(tok))
            elif self.at('['):
                self.eat()
                save, self.nostruct = self.nostruct, False
                idx = self.expr()
                self.nostruct = save
                self.eat('op', ']')
                e = ('index', e, idx)
            else:
                return e

    def primary(self):
        tok = self.peek()
        if tok[0] == 'num':
            self.eat(); return ('lit', tok[1], tok[2])
        if tok[0] == 'str':
            self.eat(); return ('str', tok[1])
        if tok[0] == 'op' and tok[1] == '(':
            self.eat()
            save, self.nostruct = self.nostruct, False
            e = self.expr()
            if self.at(','):
                items = [e]
                while self.at(','):
                    self.eat()
                    if self.at(')'):
                        break
                    items.append(self.expr())
                self.eat('op', ')')
                self.nostruct = save
                return ('tuple', items)
            self.eat('op', ')')
            self.nostruct = save
            return e
        if tok[0] == 'op' and tok[1] == '[':
            # `[elem; count]`
            self.eat()
            save, self.nostruct = self.nostruct, False
            elem = self.expr()
            if self.at(',') or self.at(']'):
                # an array LITERAL `[a, b, ..]` (round 4, safegcd): the tuple of its elements
                items = [elem]
                while self.at(','):
                    self.eat()
                    if self.at(']'):
                        break
                    items.append(self.expr())
                self.eat('op', ']')
                self.nostruct = save
                return ('tuple', items)
            self.eat('op', ';')
            count = self.expr()
            self.eat('op', ']')
            self.nostruct = save
            return ('arrayrep', elem, count)
        if tok[0] == 'op' and tok[1] == '{':
            # a block EXPRESSION `{ stmts; final }` (round 4, safegcd)
            self.eat()
            save, self.nostruct = self.nostruct, False
            stmts, fin = self.block()
            self.eat('op', '}')
            self.nostruct = save
            if fin is None:
                raise Unsupported('block expression without a value')
            return ('block', stmts, fin)
        if tok == ('id', 'if'):
            return self.if_expr()
        if tok[0] == 'id':
            path = [self.eat()[1]]
            targs = None
            while self.at('::'):
                self.eat()
                if self.at('<'):
                    targs = self.skip_generic_args()       # turbofish `Uint::<LIMBS>::new`
                    continue
                path.append(self.eat('id')[1])
            if self.at('('):
                return ('call', path, self.args())
            if self.at('{') and not self.nostruct and len(path) == 1 and path[0][0].isupper():
                return self.struct_lit(path[0])
            if len(path) == 1:
                return ('var', path[0])
            if targs:
                return ('path', path, targs)       # `Uint::<RHS_LIMBS>::ZERO`: the turbofish arguments (identifiers) kept
            return ('path', path)
        raise Unsupported('primary ' + str(tok))

    def if_expr(self):
        """`if cond { [stmts;] e } else { [stmts;] e }` as an EXPRESSION -> ('ifexpr', cond, ('block', ..), ('block', ..))"""
        self.eat('id', 'if')
        save, self.nostruct = self.nostruct, True
        cond = self.expr()
        self.nostruct = False
        arms = []
        for k in range(2):
            self.eat('op', '{')
            stmts, fin = self.block()
            self.eat('op', '}')
            if fin is None:
                raise Unsupported('if expression without a value')
            arms.append(('block', stmts, fin))
            if k == 0:
                if not self.at('else'):
                    raise Unsupported('if expression without else')
                self.eat()
                if self.at('if'):
                    arms.append(self.if_expr())
                    break
        self.nostruct = save
        return ('ifexpr', cond, arms[0], arms[1])

    def struct_lit(self, name):
        """`Name { a, b: e, .. }`"""
        self.eat('op', '{')
        fields = []
        while not self.at('}'):
            f = self.eat('id')[1]
            if self.at(':'):
                self.eat()
                fields.append((f, self.expr()))
            else:
                fields.append((f, ('var', f)))
            if self.at(','):
                self.eat()
        self.eat('op', '}')
        return ('struct', name, fields)

    def skip_generic_args(self):
        """`<LIMBS>` / `<{ N }>` after `::` in a path: skipped (the limb count of the callee is the caller's)"""
        self.eat('op', '<')
        depth = 1
        seen = []
        while depth:
            tok = self.eat()
            if tok[0] == 'id':
                seen.append(tok[1])
            if tok[0] == 'eof':
                raise Unsupported('unterminated generic arguments')
            if tok == ('op', '<'):
                depth += 1
            elif tok == ('op', '>'):
                depth -= 1
            elif tok == ('op', '>>'):
                depth -= 2
        return seen

    def field_indexed_assign(self, stmts):
        """`name.limbs[idx] op= e;` (a `Uint` is the list of its limbs) -> ('assign_idx', name, idx, op, e)"""
        save = self.i
        name = self.eat()[1]
        self.eat('op', '.')
        self.eat('id', 'limbs')
        self.eat('op', '[')
        idx = self.expr()
        self.eat('op', ']')
        if not (self.peek()[0] == 'op' and self.peek()[1] in ASSIGN_OPS):
            self.i = save
            return False
        op = self.eat()[1]
        rhs = self.expr()
        if not self.at('}'):
            self.eat('op', ';')
        stmts.append(('assign_idx', name, idx, op, rhs))
        return True

    def bare_block(self, stmts):
        """`{ stmts }` in statement position (no value): the statements are inlined; a block that ends in an expression is a
        block EXPRESSION (G14) and is left to the expression parser: position untouched"""
        save, save_ns = self.i, self.nostruct
        try:
            self.eat('op', '{')
            inner, fin = self.block()
            if fin is not None:
                raise Unsupported('block expression')
            self.eat('op', '}')
        except Unsupported:
            self.i, self.nostruct = save, save_ns
            return False
        stmts.extend(inner)
        return True

    def if_return(self, stmts):
        """`if cond { return e; }` (an early return, no `else`) -> ('ifret', cond, e); anything else: position untouched"""
        save = self.i
        try:
            self.eat('id', 'if')
            self.nostruct = True
            cond = self.expr()
            self.nostruct = False
            self.eat('op', '{')
            self.eat('id', 'return')
            e = self.expr()
            if self.at(';'):
                self.eat()
            self.eat('op', '}')
            if self.at('else'):
                raise Unsupported('if .. else')
        except Unsupported:
            self.i, self.nostruct = save, False
            return False
        stmts.append(('ifret', cond, e))
        return True

    def if_expr(self):
        """`if cond { [lets] e1 } else { [lets] e2 }` / `else if ..` as an EXPRESSION -> ('ifexpr', cond, (stmts, e1), (stmts, e2))"""
        self.eat('id', 'if')
        save = self.nostruct
        self.nostruct = True
        cond = self.expr()
        self.nostruct = False
        self.eat('op', '{')
        then = self.block()
        self.eat('op', '}')
        if not self.at('else'):
            raise Unsupported('if expression without else')
        self.eat()
        if self.at('if'):
            els = ([], self.if_expr())
        else:
            self.eat('op', '{')
            els = self.block()
            self.eat('op', '}')
        self.nostruct = save
        if then[1] is None or els[1] is None:
            raise Unsupported('if expression: a branch without a value')
        return ('ifexpr', cond, then, els)

    def if_final(self):
        """an `if .. else ..` EXPRESSION that ends the block (sets self.final); anything else: position untouched"""
        save, savens = self.i, self.nostruct
        try:
            e = self.if_expr()
            if self.at_end():
                self.final = e
                return True
        except Unsupported:
            pass
        self.i, self.nostruct = save, savens
        return False

    def if_break(self, stmts):
        """`if cond { break; }` -> ('ifbreak', cond); anything else: position untouched"""
        save = self.i
        try:
            self.eat('id', 'if')
            self.nostruct = True
            cond = self.expr()
            self.nostruct = False
            self.eat('op', '{')
            self.eat('id', 'break')
            if self.at(';'):
                self.eat()
            self.eat('op', '}')
            if self.at('else'):
                raise Unsupported('if .. else')
        except Unsupported:
            self.i, self.nostruct = save, False
            return False
        stmts.append(('ifbreak', cond))
        return True

    # ---- statements
    def let_(self):
        self.eat('id', 'let')
        if self.at('('):
            self.eat()
            names = []
            while not self.at(')'):
                if self.at('mut'):
                    self.eat()
                names.append(self.eat('id')[1])
                if self.at(','):
                    self.eat()
            self.eat('op', ')')
            self.eat('op', '=')
            e = self.expr()
            self.eat('op', ';')
            return ('lettuple', names, e)
        if self.at('mut'):
            self.eat()
        name = self.eat('id')[1]
        ty = None
        if self.at(':'):
            self.eat()
            ty = self.type_()
        if self.at(';') and ty is None:
            self.eat()
            return ('declare', name)               # `let mut x;` — assigned later (a scratch variable)
        self.eat('op', '=')
        e = self.expr()
        self.eat('op', ';')
        return ('let', name, ty, e)

    def indexed_assign(self, stmts):
        """`name[idx] op= e;` -> ('assign_idx', name, idx, op, e); leaves the position untouched when it is something else"""
        save = self.i
        name = self.eat()[1]
        self.eat('op', '[')
        idx = self.expr()
        self.eat('op', ']')
        if self.at('.') and self.peek(1) == ('num', 0, None) and self.peek(2)[0] == 'op' and self.peek(2)[1] in ASSIGN_OPS:
            # `arr[i].0 op= e`: the word inside limb `i`
            self.eat(); self.eat()
            op = self.eat()[1]
            rhs = self.expr()
            self.eat('op', ';')
            if op != '=':
                rhs = ('bin', op[:-1], ('field', ('index', ('var', name), idx), 0), rhs)
            stmts.append(('assign_idx', name, idx, '=', ('call', ['Limb'], [rhs])))
            return True
        if not (self.peek()[0] == 'op' and self.peek()[1] in ASSIGN_OPS):
            self.i = save
            return False
        op = self.eat()[1]
        rhs = self.expr()
        self.eat('op', ';')
        stmts.append(('assign_idx', name, idx, op, rhs))
        return True

    def tuple_assign(self, stmts):
        """`(a, b) = e;` -> ('assigntuple', [a, b], e); leaves the position untouched when the statement is something else"""
        save = self.i
        self.eat('op', '(')
        names = []
        while self.peek()[0] == 'id' and self.peek(1)[0] == 'op' and self.peek(1)[1] in (',', ')'):
            names.append(self.eat()[1])
            if self.at(','):
                self.eat()
        if len(names) < 2 or not self.at(')') or self.peek(1) != ('op', '='):
            self.i = save
            return False
        self.eat(); self.eat()
        e = self.expr()
        self.eat('op', ';')
        stmts.append(('assigntuple', names, e))
        return True

    def place_assign(self, stmts):
        """`x.limbs[i] op= e;`, `x[i].0 op= e;`, `x.limbs[i].0 op= e;` -> ('assign_idx', x, i, '=', e'); leaves the position
        untouched when the statement is something else"""
        save = self.i
        try:
            lhs = self.postfix()
        except Unsupported:
            self.i = save
            return False
        if not (self.peek()[0] == 'op' and self.peek()[1] in ASSIGN_OPS):
            self.i = save
            return False
        word = lhs[0] == 'field' and lhs[2] == 0
        place = lhs[1] if word else lhs
        if place[0] != 'index':
            self.i = save
            return False
        arr = place[1]
        if arr[0] == 'nfield' and arr[2] == 'limbs':
            arr = arr[1]
        if OPTS.get('unsat') and arr[0] == 'field' and arr[2] == 0 and arr[1][0] == 'var' and not word:
            arr = arr[1]      # (G18) `x.0[i] = e` on an `UnsatInt` (a newtype over `[u64; LIMBS]`)
        if arr[0] != 'var':
            self.i = save
            return False
        op = self.eat()[1]
        rhs = self.expr()
        self.eat('op', ';')
        cur = ('index', ('var', arr[1]), place[2])
        if word:
            cur = ('field', cur, 0)
        val = rhs if op == '=' else ('bin', op[:-1], cur, rhs)
        if word:
            val = ('call', ['Limb'], [val])
        stmts.append(('assign_idx', arr[1], place[2], '=', val))
        return True

    def block(self):
        """statements up to the closing brace / end of input -> (statements, final expression or None)"""
        stmts = []
        while True:
            if self.at_end():
                return stmts, None
            tok = self.peek()
            if tok == ('op', ';'):
                self.eat()
            elif tok == ('id', 'let'):
                stmts.append(self.let_())
            elif tok == ('id', 'while'):
                self.eat()
                self.nostruct = True
                cond = self.expr()
                self.nostruct = False
                self.eat('op', '{')
                body, fin = self.block()
                if fin is not None:
                    raise Unsupported('loop body ends in an expression')
                self.eat('op', '}')
                stmts.append(('while', cond, body))
            elif tok == ('id', 'loop') and self.peek(1) == ('op', '{'):
                self.eat(); self.eat()
                body, fin = self.block()
                if fin is not None:
                    raise Unsupported('loop body ends in an expression')
                self.eat('op', '}')
                stmts.append(('loop', body))
            elif tok == ('op', '{') and self.bare_block(stmts):
                pass                                # a bare block statement: its statements are inlined
            elif tok == ('id', 'if') and self.if_final():
                return stmts, self.final            # an `if .. else ..` EXPRESSION as the value of the block
            elif tok == ('id', 'if'):
                if not self.if_return(stmts) and not self.if_break(stmts):       # (`if c { break; }`: G16's `ifbreak`) `if c { return e; }` (an early return) before the general `if` statement
                    save_i = self.i
                    try:
                        stmts.append(self.if_())
                    except Unsupported:
                        # not an `if` statement: an `if` EXPRESSION in final position (`if a > b { b } else { a }`)
                        self.i, self.nostruct = save_i, False
                        e = self.expr()
                        if self.at_end():
                            return stmts, e
                        raise Unsupported('if expression used as a statement')
            elif tok == ('id', 'loop') and self.peek(1) == ('op', '{'):
                self.eat(); self.eat()
                body, fin = self.block()
                if fin is not None:
                    raise Unsupported('loop body ends in an expression')
                self.eat('op', '}')
                stmts.append(('loop', body))
            elif tok == ('id', 'break') and self.peek(1) == ('op', ';'):
                self.eat(); self.eat()
                stmts.append(('break',))
            elif tok[0] == 'id' and self.peek(1)[0] == 'op' and self.peek(1)[1] in ASSIGN_OPS:
                name = self.eat()[1]
                op = self.eat()[1]
                rhs = self.expr()
                if not self.at('}'):               # `i += 1 }`: the last statement of a block may omit the `;`
                    self.eat('op', ';')
                stmts.append(('assign', name, op, rhs))
            elif tok[0] == 'id' and self.peek(1) == ('op', '[') and self.indexed_assign(stmts):
                pass
            elif (tok[0] == 'id' and self.peek(1) == ('op', '.') and self.peek(2) == ('id', 'limbs')
                  and self.peek(3) == ('op', '[') and self.field_indexed_assign(stmts)):
                pass
            elif tok[0] == 'id' and self.peek(1) in (('op', '['), ('op', '.')) and self.place_assign(stmts):
                pass
            elif tok == ('op', '(') and OPTS.get('nat_loops') and self.tuple_assign(stmts):     # G11's form, in its units only; elsewhere the general `assign_tuple` below
                pass
            else:
                e = self.expr()
                if self.at_end():
                    return stmts, e
                if e[0] == 'tuple' and self.at('='):
                    # destructuring assignment `(lv, lv) = e;` (lv: a variable, `arr[i]`, `arr[i].0`, `_`)
                    self.eat()
                    rhs = self.expr()
                    self.eat('op', ';')
                    stmts.append(('assign_tuple', e[1], rhs))
                    continue
                if e[0] == 'call' and self.at(';'):
                    # a call as a STATEMENT: `schoolbook_squaring(limbs, &mut lo.limbs, &mut hi.limbs);`
                    self.eat()
                    stmts.append(('callstmt', e))
                    continue
                raise Unsupported('statement at ' + str(self.peek()))

    def if_(self):
        """`if cond { .. } [else { .. } | else if ..]` as a STATEMENT -> ('if', cond, then statements, else statements or None)"""
        self.eat('id', 'if')
        self.nostruct = True
        cond = self.expr()
        self.nostruct = False
        self.eat('op', '{')
        then, fin = self.block()
        if fin is not None:
            raise Unsupported('if branch ends in an expression')
        self.eat('op', '}')
        els = None
        if self.at('else'):
            self.eat()
            if self.at('if'):
                els = [self.if_()]
            else:
                self.eat('op', '{')
                els, fin = self.block()
                if fin is not None:
                    raise Unsupported('else branch ends in an expression')
                self.eat('op', '}')
        return ('if', cond, then, els)


def strip_debug_asserts(body):
    """remove `debug_assert*!( .. );` (balanced parentheses) before tokenizing"""
    out, pos = '', 0
    for m in re.finditer(r'\bdebug_assert(?:_eq|_ne)?\s*!\s*\(', body):
        if m.start() < pos:
            continue
        depth, j = 1, m.end()
        while depth and j < len(body):
            depth += {'(': 1, ')': -1}.get(body[j], 0)
            j += 1
        while j < len(body) and body[j] in ' \t\n':
            j += 1
        if j < len(body) and body[j] == ';':
            j += 1
        out += body[pos:m.start()]
        pos = j
    return out + body[pos:]


def strip_panic_guards(body):
    """remove `if cond { panic!(".."); }` (a guard that only panics: its negation is a PRECONDITION of the translated function,
    stated by the bridge theorems); -> (body without the guards, [condition texts])"""
    conds = []

    def sub(m):
        conds.append(' '.join(m.group(1).split()))
        return ''
    body = re.sub(r'\bif\s+([^{};]*?)\s*\{\s*panic\s*!\s*\(\s*"[^"]*"\s*\)\s*;?\s*\}', sub, body)
    return body, conds


def _balanced_end(text, j, open_ch='{', close_ch='}'):
    """position just after the bracket closing the one opened right before `j`"""
    depth = 1
    while depth and j < len(text):
        depth += {open_ch: 1, close_ch: -1}.get(text[j], 0)
        j += 1
    return j


def select_cfg_blocks(body):
    """cfg-attributed inner BLOCKS `#[cfg(target_pointer_width = "32")] { .. }` are removed (the 64-bit configuration is
    the one translated); the attribute of the 64-bit twin is dropped later with every other attribute, its block stays"""
    while True:
        m = re.search(r'#\[cfg\(target_pointer_width\s*=\s*"32"\)\]\s*\{', body)
        if not m:
            return body
        body = body[:m.start()] + body[_balanced_end(body, m.end()):]


def strip_nested_fns(body):
    """remove nested items `const fn name(..) -> T { .. }` from a body (they are translated as functions of the unit:
    `find_functions` sees them too)"""
    while True:
        m = FN_PRIV.search(body)
        if not m:
            return body
        body = body[:m.start()] + body[_balanced_end(body, m.end()):]


def has_break(stmts):
    for st in stmts:
        if st[0] == 'break':
            return True
        if st[0] in ('while',) and has_break(st[2]):
            return True
        if st[0] == 'loop' and has_break(st[1]):
            return True
        if st[0] == 'if' and (has_break(st[2]) or (st[3] and has_break(st[3]))):
            return True
    return False


# `type Name = <type>;` aliases of the file being translated (round 4, safegcd: `type Matrix = [[i64; 2]; 2];`)
TYPE_ALIASES = {}


def lvalue_name(lv):
    """the variable a destructuring-assignment target writes: `x`, `arr[i]`, `arr[i].0` (None for `_`)"""
    if lv[0] == 'var':
        return None if lv[1] == '_' else lv[1]
    if lv[0] == 'index' and lv[1][0] == 'var':
        return lv[1][1]
    if lv[0] == 'field' and lv[2] == 0 and lv[1][0] == 'index' and lv[1][1][0] == 'var':
        return lv[1][1][1]
    raise Unsupported('assignment target ' + str(lv[0]))


def assigned_vars(stmts, acc=None, local=None):
    """names assigned by a statement list, nested `while` / `if` bodies included, in order of first assignment; variables
    declared by a `let` of the list itself (at any depth) are its locals and are left out"""
    acc = [] if acc is None else acc
    local = set() if local is None else local

    def add(n):
        if n is not None and n not in local and n not in acc:
            acc.append(n)
    for st in stmts:
        k = st[0]
        if k == 'let':
            local.add(st[1])
        elif k == 'lettuple':
            local.update(st[1])
        elif k in ('assign', 'assign_idx'):
            add(st[1])
        elif k == 'assign_tuple':
            for lv in st[1]:
                add(lvalue_name(lv))
        elif k == 'while':
            assigned_vars(st[2], acc, local)
        elif k == 'loop':
            assigned_vars(st[1], acc, local)
        elif k == 'if':
            assigned_vars(st[2], acc, local)
            if st[3]:
                assigned_vars(st[3], acc, local)
    return acc


def join_lines(sep, lines):
    """`sep.join(lines)`; an element spanning several lines (a translated `if`) keeps its relative indentation"""
    return sep.join(l.replace('\n', sep) for l in lines)


def free_vars(x, acc):
    """variable names used in an expression / statement list, in order of first use"""
    if isinstance(x, list):
        for y in x:
            free_vars(y, acc)
        return acc
    if not isinstance(x, tuple) or not x:
        return acc
    k = x[0]
    if k == 'var':
        if x[1] not in acc:
            acc.append(x[1])
    elif k == 'assign':
        if x[1] not in acc:
            acc.append(x[1])
        free_vars(x[3], acc)
    elif k == 'assign_idx':
        if x[1] not in acc:
            acc.append(x[1])
        free_vars(x[2], acc)
        free_vars(x[4], acc)
    elif k == 'let':
        free_vars(x[3], acc)
    elif k == 'assigntuple':
        for v in x[1]:
            if v not in acc:
                acc.append(v)
        free_vars(x[2], acc)
    elif k == 'declare':
        pass
    elif k == 'lettuple':
        free_vars(x[2], acc)
    elif k == 'struct':
        for _, fe in x[2]:
            free_vars(fe, acc)
    elif k in ('lit', 'path'):
        pass
    elif k == 'call':
        free_vars(x[2], acc)
    else:
        for y in x[1:]:
            if isinstance(y, (tuple, list)):
                free_vars(y, acc)
    return acc


# ------------------------------------------------------------------ function extraction

FN = re.compile(r'((?:\s*#\[[^\]]*\]\s*)*)\s*pub(?:\([a-z]+\))?\s+const\s+fn\s+(\w+)\s*\(([^)]*)\)\s*->\s*([^{]+)\{')
FN_PRIV = re.compile(r'((?:\s*#\[[^\]]*\]\s*)*)\s*(?:pub(?:\([a-z]+\))?\s+)?const\s+fn\s+(\w+)\s*\(([^)]*)\)\s*->\s*([^{]+)\{')


FN_ANY = re.compile(r'((?:\s*#\[[^\]]*\]\s*)*)\s*(?:pub(?:\([a-z]+\))?\s+)?const\s+fn\s+(\w+)\s*\(([^)]*)\)\s*(?:->\s*([^{]+))?\{')
FN_GEN = re.compile(r'((?:\s*#\[[^\]]*\]\s*)*)\s*(?:pub(?:\([a-z]+\))?\s+)?const\s+fn\s+(\w+)\s*(?:<[^>()]*>)?\s*\(([^)]*)\)\s*->\s*([^{]+)\{')


FN_NONCONST = re.compile(r'((?:\s*#\[[^\]]*\]\s*)*)\s*(?:pub(?:\([a-z]+\))?\s+)?(?:const\s+)?fn\s+(\w+)\s*\(([^)]*)\)\s*->\s*([^{]+)\{')
FN_GEN_HEAD = re.compile(r'((?:\s*#\[[^\]]*\]\s*)*)\s*(?:pub(?:\([a-z]+\))?\s+)?const\s+fn\s+(\w+)\s*(?:<[^>()]*>)?\s*\(')


def split_top(ps):
    """split at the commas outside parentheses / brackets / angle brackets"""
    out, depth, cur = [], 0, ''
    for ch in ps:
        if ch in '([<':
            depth += 1
        elif ch in ')]>':
            depth -= 1
        if ch == ',' and depth == 0:
            out.append(cur); cur = ''
        else:
            cur += ch
    out.append(cur)
    return out


def find_functions(src, private=False):
    """yield (attrs, name, params, ret, body)"""
    if OPTS.get('free_generic'):
        # parameter lists may contain parentheses (`&(Uint<LIMBS>, Uint<LIMBS>)`): scan them balanced
        for m in FN_GEN_HEAD.finditer(src):
            depth, j = 1, m.end()
            while depth and j < len(src):
                depth += {'(': 1, ')': -1}.get(src[j], 0)
                j += 1
            r = re.compile(r'\s*->\s*([^{;]+)\{').match(src, j)
            if not r:
                continue
            params = src[m.end():j - 1]
            depth, k2 = 1, r.end()
            while depth and k2 < len(src):
                depth += {'{': 1, '}': -1}.get(src[k2], 0)
                k2 += 1
            yield m.group(1), m.group(2), params, r.group(1).strip(), src[r.end():k2 - 1]
        return
    for m in (FN_NONCONST if OPTS.get('nonconst') else FN_ANY if private == 'any' else FN_PRIV if private else FN).finditer(src):
        depth, j = 1, m.end()
        while depth and j < len(src):
            depth += {'{': 1, '}': -1}.get(src[j], 0)
            j += 1
        yield m.group(1), m.group(2), m.group(3), (m.group(4) or '').strip(), src[m.end():j - 1]


def parse_params(ps, self_ty):
    out = []
    for p in [x.strip() for x in split_top(ps) if x.strip()]:
        if p in ('&self', 'self', 'mut self', '&mut self'):
            out.append(('self', self_ty))
        else:
            n, t = [x.strip() for x in p.split(':', 1)]
            n = n.replace('mut ', '').strip()
            t = t.replace('&', '').strip()
            out.append((n, t))
    return out


# structs with named integer fields: rust name -> (lean name, [(field, type)]); filled while a unit is translated
STRUCTS = {}
# newtypes over `Word`: `.0` peels one layer
WRAP = {'Limb': 'wrap:1', 'NonZero<Limb>': 'wrap:2'}
# units whose functions are generic over a limb count: lean namespace -> name of the const parameter (first, explicit
# `Nat` argument of every definition of the unit)
GENERIC_NS = {}
# (namespace, function) of the functions translated with an `<fn>_asserts` companion (their `assert!`s)
ASSERTING = set()


def ty_of(t, self_ty):
    t = t.strip()
    if t in STRUCTS or (t == 'Self' and self_ty in STRUCTS):
        return 'struct:' + (self_ty if t == 'Self' else t)
    if (t == 'Self' and self_ty == 'Limb'):
        return 'wrap:1'
    if (t == 'Self' and self_ty == 'Uint') or (self_ty == 'Uint' and re.match(r'Uint\s*<\s*LIMBS\s*>$', t)):
        return 'uint'        # a `Uint<LIMBS>` / `[Limb; LIMBS]`: the list of its limbs, little endian
    if t in ('Self', 'ConstChoice'):
        return 'choice' if (self_ty == 'ConstChoice' or t == 'ConstChoice') else None
    if t == 'bool':
        return 'bool'
    if t in SIGNED:
        return SIGNED[t]
    m = re.match(r'\[\s*(\w+)\s*;\s*(\d+)\s*\]$', t)
    if m:
        # a fixed array of words `[u8; 2]`: the tuple of its elements
        el = ty_of(m.group(1), self_ty)
        if not isinstance(el, int) or int(m.group(2)) < 2:
            raise Unsupported('array type ' + t)
        return tuple(el for _ in range(int(m.group(2))))
    if t in WIDTH:
        return WIDTH[t]
    if t.replace(' ', '') in WRAP:
        return WRAP[t.replace(' ', '')]
    m = re.match(r'\((.*)\)$', t)
    if m:
        return tuple(ty_of(x, self_ty) for x in m.group(1).split(','))
    if re.match(r'(mut\s+)?\[\s*Limb\s*\]$', t):
        return 'uint'        # a slice `&[Limb]` / `&mut [Limb]`: the list of its limbs (`.len()` is `.length`)
    if OPTS.get('free_generic') and re.match(r'Uint\s*<\s*LIMBS\s*>$', t):
        return 'uint'
    if OPTS.get('generic2') and re.match(r'Uint\s*<\s*' + OPTS['generic2'] + r'\s*>$', t):
        return 'uint'        # a `Uint<RHS_LIMBS>`: the list of its limbs (its count is the second explicit `Nat` argument)
    if OPTS.get('free_generic') and re.match(r'Odd\s*<\s*Uint\s*<\s*LIMBS\s*>\s*>$', t):
        return 'odduint'     # `Odd<Uint<LIMBS>>`: a newtype over the limb list, `.0` is the value
    m = re.match(r'ConstCtOption\s*<\s*(.+?)\s*>$', t)
    if m:
        # a `ConstCtOption<T>` is the pair (value, is_some mask), as in CB/Model/Shift.lean
        return (ty_of(m.group(1), self_ty), 'choice')
    if re.match(r'\[\s*(Word|u64)\s*\]$', t):
        return 'words'       # a slice of plain words `&[Word]` / `&[u64]`: the list of the words; `s[i]` is a `u64`
    if t in TYPE_ALIASES:
        return ty_of(TYPE_ALIASES[t], self_ty)
    m = re.match(r'\[\s*(\[.*\])\s*;\s*(\d+)\s*\]$', t)
    if m:
        # an array of fixed arrays `[[i64; 2]; 2]`: the tuple of its rows
        el = ty_of(m.group(1), self_ty)
        if not isinstance(el, tuple) or int(m.group(2)) < 2:
            raise Unsupported('array type ' + t)
        return tuple(el for _ in range(int(m.group(2))))
    if t == 'Ordering':
        return SInt(8)       # `core::cmp::Ordering`: its discriminant as an `i8` (Less = -1, Equal = 0, Greater = 1)
    raise Unsupported('type ' + t)


def lean_ty(t):
    if t == 'choice':
        return 'BitVec 64'
    if t == 'bool':
        return 'Bool'
    if isinstance(t, tuple):
        return ' × '.join((f'({lean_ty(x)})' if isinstance(x, tuple) else lean_ty(x)) for x in t)
    if t == 'words':
        return 'List (BitVec 64)'
    if isinstance(t, str) and t.startswith('struct:'):
        return STRUCTS[t[7:]][0]
    if isinstance(t, str) and t.startswith('wrap:'):
        return 'BitVec 64'
    if t == 'uint':
        return 'List (BitVec 64)'
    if t == 'odduint':
        return 'List (BitVec 64)'
    if t == 'nat':
        return 'Nat'
    return f'BitVec {t}'


def atom(t):
    """parenthesize a lean term unless it is an identifier / literal / already one parenthesized group (for argument positions)"""
    if re.match(r'[\w.#]+$', t):
        return t
    if t.startswith('('):
        depth = 0
        for j, ch in enumerate(t):
            depth += {'(': 1, ')': -1}.get(ch, 0)
            if depth == 0:
                if j == len(t) - 1:
                    return t
                break
    return f'({t})'


def proj(idx, n):
    """projection of component idx of an n-tuple (right-nested pairs)"""
    return '.2' * idx + ('.1' if idx < n - 1 else '')


def parse_struct(src, name):
    """`struct Name { a: T, .. }` -> [(field, type)]"""
    m = re.search(r'\bstruct\s+' + name + r'\s*\{([^}]*)\}', src)
    if not m:
        raise Unsupported('struct ' + name + ' not found')
    fields = []
    body = re.sub(r'//[^\n]*', '', m.group(1))
    body = re.sub(r'#\[[^\]]*\]', '', body)
    for f in [x.strip() for x in body.split(',') if x.strip()]:
        f = re.sub(r'^pub(?:\([a-z]+\))?\s+', '', f)
        n, t = [x.strip() for x in f.split(':', 1)]
        ty = ty_of(t, None)
        if not isinstance(ty, int):
            raise Unsupported('field type ' + t)
        fields.append((n, ty))
    if not fields:
        raise Unsupported('empty struct')
    return fields


# ------------------------------------------------------------------ code generation

class Gen:
    def __init__(self, sigs, self_ty, ns, ext=None):
        self.sigs, self.self_ty, self.ns = sigs, self_ty, ns
        self.ext = ext or {}        # 'choice': (namespace, sigs) of the ConstChoice unit; 'use': [(namespace, sigs)] for bare calls;
        #                             'limb' / 'uint': (namespace, sigs) of the units holding the methods of `Limb` / `Uint<LIMBS>`
        self.generic = GENERIC_NS.get(ns)   # name of the unit's const parameter (`LIMBS`), an explicit `Nat` argument
        self.reset('')

    def reset(self, fname):
        self.fname, self.cenv, self.aux, self.pn, self.nloop = fname, {}, [], 0, 0
        self.mutparams, self.allow_mut = [], False

    def const(self, e):
        """fold a constant Nat expression (shift amounts, T::BITS - 1, untyped literal counters) or return None"""
        k = e[0]
        if k == 'lit':
            return e[1]
        if k == 'var' and e[1] in self.cenv:
            return self.cenv[e[1]]
        if k == 'path' and len(e[1]) == 2 and e[1][1] == 'BITS' and e[1][0] in WIDTH:
            return WIDTH[e[1][0]]
        if k == 'path' and e[1] == ['Limb', 'BITS']:
            return 64
        if k == 'path' and len(e[1]) == 2 and e[1][1] == 'HI_BIT' and (e[1][0] == 'Limb' or (e[1][0] == 'Self' and self.self_ty == 'Limb')):
            return 63
        if k == 'path' and e[1] == ['Self', 'BITS'] and self.self_ty == 'Limb':
            return 64
        if k == 'bin' and e[1] in '+-*':
            a, b = self.const(e[2]), self.const(e[3])
            if a is None or b is None:
                return None
            return {'+': a + b, '-': a - b, '*': a * b}[e[1]]
        if k == 'as':
            return self.const(e[1])
        return None

    def cond_const(self, e):
        """a comparison of constants -> bool, else None"""
        if e[0] == 'bin' and e[1] in ('<', '>', '<=', '>=', '==', '!='):
            a, b = self.const(e[2]), self.const(e[3])
            if a is None or b is None:
                return None
            return {'<': a < b, '>': a > b, '<=': a <= b, '>=': a >= b, '==': a == b, '!=': a != b}[e[1]]
        return None

    def lookup(self, name, where):
        """-> (namespace, signature) of a callable, or (None, None)"""
        if where == 'choice' and self.self_ty != 'ConstChoice':
            c = self.ext.get('choice')
            return (c[0], c[1].get(name)) if c else (None, None)
        if where in ('limb', 'uint') and self.self_ty != {'limb': 'Limb', 'uint': 'Uint'}[where]:
            # further units holding methods of `Limb` / `Uint<LIMBS>` (listed by the unit under `limb_more` / `uint_more`)
            for ns, sg in self.ext.get(where + '_more', []):
                if name in sg:
                    return ns, sg[name]
        if where in ('limb', 'uint'):
            # a method of `Limb` / `Uint<LIMBS>`: the unit itself when it is the impl of that type, else the unit holding it
            more = ([self.ext[where]] if self.ext.get(where) else []) + list(self.ext.get(where + '+') or [])
            if self.self_ty == {'limb': 'Limb', 'uint': 'Uint'}[where]:
                if name in self.sigs:
                    return (self.ns, self.sigs[name])
                for ns, sg in more:          # the methods of the type that live in other units (Chains, `more_limb`/`more_uint`)
                    if name in sg:
                        return ns, sg[name]
                return (None, None)
            for ns, sg in more[1:]:
                if name in sg and not (more[0][1].get(name)):
                    return ns, sg[name]
            c = self.ext.get(where)
            if not (c and name in c[1]):
                for c2 in self.ext.get(where + '_more', []):      # further units holding methods of the same type
                    if name in c2[1]:
                        return c2[0], c2[1][name]
            return (c[0], c[1].get(name)) if c else (None, None)
        if where == 'bare' and self.self_ty in ('Limb', 'Uint'):
            # inside `impl Limb` a bare `adc(..)` is the imported free function, never the method of the same name
            for ns, sg in self.ext.get('use', []):
                if name in sg:
                    return ns, sg[name]
            return None, None
        if name in self.sigs:
            return self.ns, self.sigs[name]
        if where == 'bare':
            for ns, sg in self.ext.get('use', []):
                if name in sg:
                    return ns, sg[name]
        return None, None

    def is_lit_var(self, e, env):
        return e[0] == 'var' and e[1] in env and env[e[1]][1] == 'lit'

    def ex(self, e, env, want=None):
        """-> (lean text, type)"""
        k = e[0]
        if k == 'lit':
            if want == 'nat' and e[2] in (None, 'usize'):
                return str(e[1]), 'nat'          # an index / limb count
            if e[2] in SIGNED:
                return f'{e[1]}#{SIGNED[e[2]]}', SIGNED[e[2]]
            w = WIDTH.get(e[2]) if e[2] else (want if isinstance(want, int) else None)
            if w is None:
                raise Unsupported('untyped literal')
            return f'{e[1]}#{w}', w
        if k == 'var':
            if e[1] in ('true', 'false') and e[1] not in env:
                return e[1], 'bool'
            if e[1] not in env:
                raise Unsupported('unknown variable ' + e[1])
            if env[e[1]][1] == 'undef':
                raise Unsupported('read of a declared but (here) unassigned variable ' + e[1])
            if env[e[1]][1] == 'defer':
                # `let mask = (1 << n) - 1;` whose integer type is fixed by its USE: translated where it is used, at the type
                # wanted there, provided no variable it reads has been re-bound since the `let`
                dexpr, snap = env[e[1]][3], env[e[1]][2]
                if not isinstance(want, int):
                    raise Unsupported('untyped literal')
                for v in free_vars(dexpr, []):
                    if v in snap and env.get(v) != snap[v]:
                        raise Unsupported('deferred let: a variable it reads was re-bound before its use')
                return self.ex(dexpr, snap, want)
            if env[e[1]][1] == 'lit':
                if want == 'nat':
                    return env[e[1]][0], 'nat'
                if not isinstance(want, int):
                    raise Unsupported('untyped literal')
                return f'{env[e[1]][0]}#{want}', want
            return env[e[1]]
        if k == 'path':
            p = e[1]
            if p[0] in ('Self', 'ConstChoice') and p[1] in ('TRUE', 'FALSE'):
                return ('(~~~0#64)' if p[1] == 'TRUE' else '0#64'), 'choice'
            if p[0] in WIDTH and p[1] == 'MAX':
                return f'(~~~0#{WIDTH[p[0]]})', WIDTH[p[0]]
            if p[0] in WIDTH and p[1] == 'BITS':
                return f'{WIDTH[p[0]]}#32', 32
            if len(p) == 2 and (p[0] == 'Limb' or (p[0] == 'Self' and self.self_ty == 'Limb')) and p[1] in ('ZERO', 'ONE', 'MAX'):
                return {'ZERO': '0#64', 'ONE': '1#64', 'MAX': '(~~~0#64)'}[p[1]], 'wrap:1'
            if len(p) == 2 and p[0] == 'Limb' and p[1] == 'BITS':
                return '64#32', 32
            if len(p) == 2 and (p[0] == 'Limb' or (p[0] == 'Self' and self.self_ty == 'Limb')) and p[1] == 'HI_BIT':
                return '63#32', 32
            if len(p) == 2 and p[0] == 'Self' and self.self_ty == 'Limb' and p[1] == 'BITS':
                return '64#32', 32
            if (len(e) > 2 and OPTS.get('generic2') and e[2] == [OPTS['generic2']] and p == ['Uint', 'ZERO']
                    and env.get(OPTS['generic2'], (None, None))[1] == 'nat'):
                return f'(List.replicate {env[OPTS["generic2"]][0]} 0#64)', 'uint'      # `Uint::<RHS_LIMBS>::ZERO`
            if len(e) > 2 and e[2] != [self.generic]:
                raise Unsupported('turbofish ' + '::'.join(p))
            if (len(p) == 2 and p[0] in ('Self', 'Uint') and self.self_ty == 'Uint' and self.generic
                    and env.get(self.generic, (None, None))[1] == 'nat'):
                if p[1] == 'ZERO':
                    return f'(List.replicate {env[self.generic][0]} 0#64)', 'uint'
                if p[1] == 'BITS':
                    # `Self::BITS: u32 = LIMBS * Limb::BITS` (a `u32`: wraps like the constant would)
                    return f'(BitVec.ofNat 32 (64 * {env[self.generic][0]}))', 32
            if (len(p) == 2 and p[1] == 'ZERO' and self.generic and env.get(self.generic, (None, None))[1] == 'nat'
                    and (p[0] == 'Uint' or (p[0] == 'Self' and self.self_ty == 'Uint'))):
                # `Uint::ZERO` (`from_u8(0)`): all limbs zero (also from a free generic function, where there is no `Self`)
                return f'(List.replicate {env[self.generic][0]} 0#64)', 'uint'
            if len(p) == 2 and p[0] == 'Ordering' and p[1] in ('Less', 'Equal', 'Greater'):
                return {'Less': '(-1#8)', 'Equal': '0#8', 'Greater': '1#8'}[p[1]], SInt(8)
            raise Unsupported('path ' + '::'.join(p))
        if k == 'ifexpr':
            c, tc = self.ex(e[1], env)
            if tc != 'bool':
                raise Unsupported('if condition of type ' + str(tc))
            outs_ = []
            for stmts_, fin_ in (e[2], e[3]):
                e2, l2, saved = dict(env), [], dict(self.cenv)
                self.run(stmts_, e2, l2, set())
                t, ty = self.ex(fin_, e2, want if not outs_ else outs_[0][1])
                self.cenv = saved
                if any('\n' in l for l in l2):
                    raise Unsupported('if expression: a loop / if statement inside a branch')
                outs_.append((''.join(l + '; ' for l in l2) + t, ty))
            if outs_[0][1] != outs_[1][1]:
                raise Unsupported(f'if expression: branch types {outs_[0][1]} / {outs_[1][1]}')
            return f'(if {c} then ({outs_[0][0]}) else ({outs_[1][0]}))', outs_[0][1]
        if k == 'field':
            t, ty = self.ex(e[1], env)
            if ty == 'choice' and e[2] == 0:
                return t, 64
            if isinstance(ty, str) and ty.startswith('wrap:') and e[2] == 0:
                d = int(ty[5:])
                return t, (64 if d == 1 else f'wrap:{d - 1}')
            if isinstance(ty, tuple):
                return f'({t}).{e[2] + 1}', ty[e[2]]
            if ty == 'odduint' and e[2] == 0:
                return t, 'uint'
            raise Unsupported('field of ' + str(ty))
        if k == 'index':
            t, ty = self.ex(e[1], env)
            if isinstance(ty, tuple):
                # a fixed array of words: component K for a literal K
                c = self.const(e[2])
                if c is None or not 0 <= c < len(ty):
                    raise Unsupported('index into a fixed array')
                return f'{atom(t)}{proj(c, len(ty))}', ty[c]
            if ty == 'words':
                ix, tix = self.ex(e[2], env, 'nat')
                if tix != 'nat':
                    raise Unsupported('index of type ' + str(tix))
                return f'({atom(t)}.getD {atom(ix)} 0#64)', 64
            if ty != 'uint':
                raise Unsupported('index into ' + str(ty))
            ix, tix = self.ex(e[2], env, 'nat')
            if tix != 'nat':
                raise Unsupported('index of type ' + str(tix))
            # total access: inside `while i < LIMBS` on a `LIMBS`-limb value the default is never taken
            return f'({atom(t)}.getD {atom(ix)} 0#64)', 'wrap:1'
        if k == 'arrayrep':
            el, tel = self.ex(e[1], env, 'wrap:1')
            n, tn = self.ex(e[2], env, 'nat')
            if tel != 'wrap:1' or tn != 'nat':
                raise Unsupported('array literal')
            return f'(List.replicate {atom(n)} {atom(el)})', 'uint'
        if k == 'nfield':
            t, ty = self.ex(e[1], env)
            if ty == 'uint' and e[2] == 'limbs':
                return t, 'uint'
            if isinstance(ty, str) and ty.startswith('struct:'):
                for f, fty in STRUCTS[ty[7:]][1]:
                    if f == e[2]:
                        return (f'{t}.{f}' if re.match(r'\w+$', t) else f'({t}).{f}'), fty
            raise Unsupported('named field ' + e[2])
        if k == 'struct':
            name = self.self_ty if e[1] == 'Self' else e[1]
            if name == 'Uint' and self.generic and [f for f, _ in e[2]] == ['limbs']:
                t, ty = self.ex(e[2][0][1], env)
                if ty != 'uint':
                    raise Unsupported('Uint { limbs } of ' + str(ty))
                return t, 'uint'
            if name not in STRUCTS:
                raise Unsupported('struct literal ' + str(e[1]))
            lname, fields = STRUCTS[name]
            given = dict(e[2])
            if len(given) != len(e[2]) or set(given) != {f for f, _ in fields}:
                raise Unsupported('struct literal fields')
            parts = []
            for f, fty in fields:
                t, ty = self.ex(given[f], env, fty)
                if ty != fty:
                    raise Unsupported(f'field type {ty} for {fty}')
                parts.append(f'{f} := {t}')
            return '({ ' + ', '.join(parts) + ' } : ' + lname + ')', 'struct:' + name
        if k == 'block':
            if not e[1]:
                return self.ex(e[2], env, want)
            e2, l2, saved = dict(env), [], dict(self.cenv)
            self.run(e[1], e2, l2)
            t, ty = self.ex(e[2], e2, want)
            self.cenv = saved
            return '(' + join_lines('\n    ', l2 + [t]) + ')', ty
        if k == 'ifexpr':
            c = self.cond_prop(e[1], env)
            a, ta = self.ex(e[2], env, want)
            b, tb = self.ex(e[3], env, ta)
            if ta != tb:
                raise Unsupported('if expression: branch types differ')
            return f'(if {c} then {a} else {b})', ta
        if k == 'tuple':
            parts = [self.ex(x, env, (want[i] if isinstance(want, tuple) and i < len(want) else None)) for i, x in enumerate(e[1])]
            return '(' + ', '.join(p[0] for p in parts) + ')', tuple(p[1] for p in parts)
        if k == 'not':
            t, ty = self.ex(e[1], env, want)
            if ty == 'bool':
                return f'(!{t})', 'bool'
            return f'(~~~{t})', ty
        if k == 'neg':
            t, ty = self.ex(e[1], env, want)
            return f'(-{t})', ty
        if k == 'as' and e[2] == 'usize' and self.generic and e[1][0] != 'lit' and not self.is_lit_var(e[1], env):
            # a word used as a limb index / count (`(shift / Limb::BITS) as usize`): its value as a `Nat`
            t, ty = self.ex(e[1], env)
            if ty == 'nat':
                return t, 'nat'
            if not isinstance(ty, int) or ty > 64:
                raise Unsupported('cast of ' + str(ty) + ' to usize')
            return f'({t}).toNat', 'nat'
        if k == 'as' and e[2] == 'usize' and OPTS.get('usize_nat') and e[1][0] != 'lit' and not self.is_lit_var(e[1], env):
            # (unit option `usize_nat`) the same in a unit that is not generic over a limb count
            t, ty = self.ex(e[1], env)
            if ty == 'nat':
                return t, 'nat'
            if not isinstance(ty, int) or ty > 64:
                raise Unsupported('cast of ' + str(ty) + ' to usize')
            return f'({t}).toNat', 'nat'
        if k == 'as':
            tgt = ty_of(e[2], self.self_ty)
            if not isinstance(tgt, int):
                raise Unsupported('cast to ' + str(e[2]))
            t, ty = self.ex(e[1], env, tgt if (e[1][0] == 'lit' or self.is_lit_var(e[1], env)) else None)
            if ty == 'bool':
                return f'(if {t} then 1#{tgt} else 0#{tgt})', tgt
            if ty == 'choice':
                ty = 64
            if ty == tgt:
                return t, tgt
            if ty == 'nat':
                return f'(BitVec.ofNat {tgt} {atom(t)})', tgt      # a `usize` counter used as a word (`i as u32`)
            if not isinstance(ty, int):
                raise Unsupported('cast of ' + str(ty))
            if isinstance(ty, SInt) and tgt > ty:
                return f'({t}).signExtend {tgt}', tgt      # `as` from a signed type to a wider one
            return f'({t}).setWidth {tgt}', tgt
        if k == 'bin':
            op = e[1]
            if op in ('<<', '>>'):
                t, ty = self.ex(e[2], env, want)
                lop = '<<<' if op == '<<' else '>>>'
                c = self.const(e[3])
                if c is None:
                    # release semantics of a non-constant amount: taken modulo the bit width of the shifted value
                    if not isinstance(ty, int):
                        raise Unsupported('shift of ' + str(ty))
                    s, ts = self.ex(e[3], env)
                    if ts == 'nat':
                        # the amount is a loop counter kept as a `Nat` (`shift >> i`, `1 << i` with `i < shift_bits`)
                        return f'({t} {lop} ({s} % {ty}))', ty
                    if not isinstance(ts, int) or ty >= 2 ** ts:
                        raise Unsupported('shift amount type')
                    if isinstance(ty, SInt) and op == '>>':
                        return f'(BitVec.sshiftRight {atom(t)} ({s} % {ty}#{ts}).toNat)', ty
                    return f'({t} {lop} ({s} % {ty}#{ts}))', ty
                if isinstance(ty, SInt) and op == '>>':
                    if not 0 <= c < ty:
                        raise Unsupported('shift amount')
                    return f'(BitVec.sshiftRight {atom(t)} {c})', ty      # arithmetic shift of a signed value
                return f'({t} {lop} {c})', ty
            if want == 'nat' and op == '-' and OPTS.get('nat_loops'):
                # `usize` subtraction in an index / loop bound: truncated subtraction of `Nat` (equal whenever Rust does not
                # overflow; an overflowing `usize` subtraction panics in debug builds and is never in range as an index)
                a, ta = self.ex(e[2], env, 'nat'); b, tb = self.ex(e[3], env, 'nat')
                if ta != 'nat' or tb != 'nat':
                    raise Unsupported('index arithmetic')
                return f'({a} - {b})', 'nat'
            if want == 'nat' and op == '+':
                a, ta = self.ex(e[2], env, 'nat'); b, tb = self.ex(e[3], env, 'nat')
                if ta != 'nat' or tb != 'nat':
                    raise Unsupported('index arithmetic')
                return f'({a} + {b})', 'nat'
            if op in ('+', '-', '*') and (want == 'nat' or self.is_nat(e, env)):
                # index arithmetic on `Nat`s (`-` is truncated: it agrees with `usize` wherever Rust does not overflow)
                a, ta = self.ex(e[2], env, 'nat'); b, tb = self.ex(e[3], env, 'nat')
                if ta != 'nat' or tb != 'nat':
                    raise Unsupported('index arithmetic')
                return f'({a} {op} {b})', 'nat'
            if op in ('==', '!=', '<', '>', '<=', '>=') and (self.is_nat(e[2], env) or self.is_nat(e[3], env)):
                return f'(decide ({self.nat_cmp(e, env)}))', 'bool'
            if want == 'nat' and op == '-':
                # `i - shift_num`, `LIMBS - 1` on `usize`: truncated subtraction (Rust panics on underflow; never reached
                # in the translated loops, where the index is in range)
                a, ta = self.ex(e[2], env, 'nat'); b, tb = self.ex(e[3], env, 'nat')
                if ta != 'nat' or tb != 'nat':
                    raise Unsupported('index arithmetic')
                return f'({a} - {b})', 'nat'
            a, ta = None, None
            # literals take the type of the other operand
            if (e[2][0] == 'lit' and not e[2][2]) or self.is_lit_var(e[2], env):
                b, tb = self.ex(e[3], env, want); a, ta = self.ex(e[2], env, tb)
            else:
                a, ta = self.ex(e[2], env, want); b, tb = self.ex(e[3], env, ta)
            if ta == 'choice':
                ta = 64
            if tb == 'choice':
                tb = 64
            if ta != tb:
                raise Unsupported(f'operand types differ: {ta} {tb}')
            if ta == 'nat' and op in ('==', '!=', '<', '>', '<=', '>='):
                # a comparison between limb counts / indices (`assert!(LIMBS >= 1)`)
                return f'(decide ({a} {dict([("==", "="), ("!=", "≠"), ("<", "<"), (">", ">"), ("<=", "≤"), (">=", "≥")])[op]} {b}))', 'bool'
            if ta == 'nat' and OPTS.get('nat_loops') and op in ('+', '-'):
                return f'({a} {op} {b})', 'nat'          # `let idx = i + j;` (truncated subtraction, see above)
            if ta == 'nat':
                raise Unsupported('index arithmetic')
            if op in ('==', '!=', '<', '>', '<=', '>='):
                if ta == 'bool':
                    raise Unsupported('bool comparison')
                lop = {'==': '==', '!=': '!=', '<': '<', '>': '>', '<=': '≤', '>=': '≥'}[op]
                if op in ('==', '!='):
                    return f'({a} {lop} {b})', 'bool'
                if isinstance(ta, SInt) or isinstance(tb, SInt):
                    if not (isinstance(ta, SInt) and isinstance(tb, SInt)):
                        raise Unsupported('comparison of a signed and an unsigned value')
                    sop = {'<': f'BitVec.slt {atom(a)} {atom(b)}', '>': f'BitVec.slt {atom(b)} {atom(a)}',
                           '<=': f'BitVec.sle {atom(a)} {atom(b)}', '>=': f'BitVec.sle {atom(b)} {atom(a)}'}[op]
                    return f'({sop})', 'bool'
                return f'(decide ({a} {lop} {b}))', 'bool'
            if op in ('&&', '||'):
                return f'({a} {op} {b})', 'bool'
            if op in ('/', '%') and self.ext.get('defer_lets') and isinstance(ta, int) and not isinstance(ta, SInt) and ta != 'bool':
                # unsigned division / remainder (`BitVec` `/` and `%` are `udiv` / `umod`; a zero divisor panics in Rust and
                # yields 0 / the dividend here: only constant non-zero divisors are accepted)
                if not self.const(e[3]):
                    raise Unsupported('division by a non-constant')
                return f'({a} {op} {b})', ta
            lop = {'&': '&&&', '|': '|||', '^': '^^^', '+': '+', '-': '-', '*': '*', '/': '/', '%': '%'}.get(op)
            if lop is None or ta == 'bool' or not isinstance(ta, int):
                raise Unsupported('operator ' + op)
            return f'({a} {lop} {b})', ta
        if k == 'method':
            name, recv, args = e[1], e[2], e[3]
            r, tr = self.ex(recv, env)
            if (tr == 'wrap:1' and name in ('wrapping_add', 'wrapping_sub', 'wrapping_mul', 'wrapping_neg')
                    and self.lookup(name, 'limb')[1] is not None):
                return self.call(name, [recv] + args, env, 'limb')     # the translated `Limb` method rather than the builtin
            if tr == 'uint' and name in ('wrapping_add', 'wrapping_sub', 'wrapping_mul', 'wrapping_neg'):
                return self.call(name, [recv] + args, env, 'uint')     # never the word operation on a limb list
            if name == 'len' and tr == 'uint' and not args:
                return f'{atom(r)}.length', 'nat'
            if name == 'saturating_mul' and isinstance(tr, int) and len(args) == 1:
                b, tb = self.ex(args[0], env, tr)
                if tb != tr:
                    raise Unsupported('saturating_mul types')
                return (f'(if (({r}).setWidth {2 * tr} * ({b}).setWidth {2 * tr}) >>> {tr} == 0#{2 * tr} then ({r} * {b}) else (~~~0#{tr}))'), tr
            if name in ('wrapping_add', 'wrapping_sub', 'wrapping_mul'):
                b, tb = self.ex(args[0], env, tr)
                if tb != tr:
                    raise Unsupported('wrapping op types')
                return f'({r} {dict(wrapping_add="+", wrapping_sub="-", wrapping_mul="*")[name]} {b})', tr
            if name == 'wrapping_neg':
                return f'(-{r})', tr
            if name == 'overflowing_add' and tr == 'wrap:1' and len(args) == 1 and self.lookup(name, 'limb')[1] is not None:
                return self.call(name, [recv] + args, env, 'limb')     # `Limb::overflowing_add` (src/limb/add.rs), translated
            if name == 'overflowing_add':
                b, tb = self.ex(args[0], env, tr)
                return f'(({r} + {b}), decide (({r} + {b}) < {r}))', (tr, 'bool')
            if name == 'len' and tr == 'uint' and not args:
                return f'{atom(r)}.length', 'nat'
            if name == 'expect' and isinstance(tr, tuple) and len(tr) == 2 and tr[1] == 'choice' and len(args) == 1 and args[0][0] == 'str':
                # `ConstCtOption::expect(msg)`: `assert!(is_some); value` — the translation is the VALUE; that the assertion
                # holds is a statement about the hand-written model (outer `Option`), proved with the bridge
                return f'({r}).1', tr[0]
            if name == 'unwrap_or' and tr == ('uint', 'choice') and len(args) == 1:
                # `ConstCtOption<Uint>::unwrap_or(def)` is `Uint::select(&def, &self.value, self.is_some)` (src/const_choice.rs)
                ns, sig = self.lookup('select', 'uint')
                if sig != (['uint', 'uint', 'choice'], 'uint') or not self.generic:
                    raise Unsupported('unwrap_or without a translated Uint::select')
                d, td = self.ex(args[0], env, 'uint')
                if td != 'uint':
                    raise Unsupported('unwrap_or default of type ' + str(td))
                return f'({ns}.select {env[self.generic][0]} {atom(d)} ({r}).1 ({r}).2)', 'uint'
            if name in ('wrapping_shr', 'wrapping_shl') and isinstance(tr, int) and len(args) == 1:
                # the amount (a `u32`) is masked to the bit width
                b, tb = self.ex(args[0], env, 32)
                if tb != 32:
                    raise Unsupported('wrapping shift amount type')
                return f'({r} {">>>" if name == "wrapping_shr" else "<<<"} ({b} % {tr}#32))', tr
            if name in ('trailing_zeros', 'trailing_ones') and isinstance(tr, int) and not args:
                x = atom(r) if name == 'trailing_zeros' else f'(~~~{r})'
                return (f'(BitVec.ctz {x})' if tr == 32 else f'((BitVec.ctz {x})).setWidth 32'), 32
            if name == 'leading_zeros' and isinstance(tr, int) and not args:
                return (f'(BitVec.clz {atom(r)})' if tr == 32 else f'((BitVec.clz {atom(r)})).setWidth 32'), 32
            if tr == 'choice':
                return self.call(name, [recv] + args, env, 'choice')
            if tr == 'wrap:1':
                return self.call(name, [recv] + args, env, 'limb')
            if tr == 'uint':
                return self.call(name, [recv] + args, env, 'uint')
            raise Unsupported('method ' + name)
        if k == 'call':
            p = e[1]
            if (p == ['Self'] and self.self_ty == 'ConstChoice') or p == ['ConstChoice']:
                t, ty = self.ex(e[2][0], env, 64)
                if ty != 64:
                    raise Unsupported('Self(non-word)')
                return t, 'choice'
            if p == ['Limb'] or (p == ['Self'] and self.self_ty == 'Limb'):
                if len(e[2]) != 1:
                    raise Unsupported('Limb(..) arity')
                t, ty = self.ex(e[2][0], env, 64)
                if ty != 64:
                    raise Unsupported('Limb(non-word)')
                return t, 'wrap:1'
            if len(p) == 2 and p[1] == 'new' and self.generic and (p[0] == 'Uint' or (p[0] == 'Self' and self.self_ty == 'Uint')):
                # `Uint::new(limbs)` is `Self { limbs }`
                if len(e[2]) != 1:
                    raise Unsupported('Uint::new arity')
                t, ty = self.ex(e[2][0], env)
                if ty != 'uint':
                    raise Unsupported('Uint::new of ' + str(ty))
                return t, 'uint'
            if len(p) == 2 and p[0] == 'ConstCtOption' and p[1] in ('some', 'none', 'new'):
                # a `ConstCtOption<T>` is the pair (value, is_some mask)
                if len(e[2]) != (2 if p[1] == 'new' else 1):
                    raise Unsupported('ConstCtOption arity')
                wv = want[0] if isinstance(want, tuple) and len(want) == 2 else None
                v, tv = self.ex(e[2][0], env, wv)
                if p[1] == 'new':
                    c, tc = self.ex(e[2][1], env, 'choice')
                    if tc != 'choice':
                        raise Unsupported('ConstCtOption::new with a non-choice')
                else:
                    c = '(~~~0#64)' if p[1] == 'some' else '0#64'
                return f'({v}, {c})', (tv, 'choice')
            if len(p) == 2 and p[0] == 'Limb' and self.self_ty != 'Limb':
                return self.call(p[1], e[2], env, 'limb')
            if len(p) == 2 and p[0] == 'Uint' and self.self_ty != 'Uint':
                return self.call(p[1], e[2], env, 'uint')
            if len(p) == 2 and p[0] in ('Limb', 'Uint') and p[0] == self.self_ty:
                return self.call(p[1], e[2], env, 'self')
            if len(p) == 2 and p[0] == 'Self':
                return self.call(p[1], e[2], env, 'self')
            if len(p) == 2 and p[0] == 'ConstChoice':
                return self.call(p[1], e[2], env, 'choice')
            if len(p) == 1:
                return self.call(p[0], e[2], env, 'bare')
            raise Unsupported('call ' + '::'.join(p))
        raise Unsupported('expr ' + k)

    def is_nat(self, e, env):
        """an index expression: a `Nat` variable (loop counter, `let k = i + j`), `slice.len()`, `+ - *` with such an operand"""
        k = e[0]
        if k == 'var':
            return e[1] in env and env[e[1]][1] == 'nat'
        if k == 'method' and e[1] == 'len' and not e[3]:
            return True
        if k == 'bin' and e[1] in ('+', '-', '*'):
            return self.is_nat(e[2], env) or self.is_nat(e[3], env)
        return False

    def nat_cmp(self, e, env):
        """a comparison of index expressions as a lean proposition"""
        a, ta = self.ex(e[2], env, 'nat'); b, tb = self.ex(e[3], env, 'nat')
        if ta != 'nat' or tb != 'nat':
            raise Unsupported('index comparison')
        lop = {'==': '=', '!=': '≠', '<': '<', '>': '>', '<=': '≤', '>=': '≥'}[e[1]]
        return f'{a} {lop} {b}'

    def cond_prop(self, cond, env):
        """the condition of an `if` statement as a (decidable) lean proposition"""
        if cond[0] == 'bin' and cond[1] in ('==', '!=', '<', '>', '<=', '>=') and (self.is_nat(cond[2], env) or self.is_nat(cond[3], env)):
            return self.nat_cmp(cond, env)
        t, ty = self.ex(cond, env)
        if ty != 'bool':
            raise Unsupported('if condition of type ' + str(ty))
        return f'{t} = true'

    def call(self, name, args, env, where='self'):
        ns, sig = self.lookup(name, where)
        if sig is None:
            raise Unsupported('call to untranslated ' + name)
        if (ns, name) in ASSERTING:
            raise Unsupported('call to a function with assert! (' + name + ')')
        if (ns, name) in GENERIC2_FNS:
            raise Unsupported('call to a function with two const generics (' + name + ')')
        ptys, rty = sig
        if len(ptys) != len(args):
            raise Unsupported('arity ' + name)
        if (ns, name) in MUTP and not self.allow_mut:
            raise Unsupported('call of a function with `&mut` slice parameters outside `let x = f(..);`')
        self.allow_mut = False
        parts = []
        for a, pt in zip(args, ptys):
            t, ty = self.ex(a, env, pt)
            if ty != pt and not (ty == 64 and pt == 'choice') and not (ty == 'choice' and pt == 64):
                raise Unsupported(f'argument type {ty} for {pt} in {name}')
            parts.append(atom(t))
        if ns in GENERIC_NS:
            # same limb count as the caller (`Self` is `Uint<LIMBS>` on both sides)
            if self.generic != GENERIC_NS[ns] or env.get(self.generic, (None, None))[1] != 'nat':
                raise Unsupported('call into a generic unit from outside')
            parts.insert(0, env[self.generic][0])
        return f'({ns}.{name} ' + ' '.join(parts) + ')', rty

    # ---- statements
    def bind(self, v, t, ty, env, lines):
        nm = self.fresh(v, env)
        lines.append(f'let {nm} := {t}')
        env[v] = (nm, ty)
        self.cenv.pop(v, None)

    def run(self, stmts, env, lines, declared=None):
        """execute statements symbolically: appends lean `let` lines, updates env (rust name -> (lean text, type))"""
        for pos, st in enumerate(stmts):
            k = st[0]
            if k == 'declare':
                if declared is not None:
                    declared.add(st[1])
                env[st[1]] = ('', 'undef')
                self.cenv.pop(st[1], None)
                continue
            if k == 'assigntuple':
                _, names, e = st
                t, ty = self.ex(e, env)
                if not isinstance(ty, tuple) or len(ty) != len(names):
                    raise Unsupported('tuple assignment of a non-tuple')
                if any(v not in env or (env[v][1] != 'undef' and env[v][1] != ty[idx]) for idx, v in enumerate(names)):
                    raise Unsupported('tuple assignment changes a type / unknown variable')
                self.pn += 1
                tmp = f'p{self.pn}'
                lines.append(f'let {tmp} := {t}')
                for idx, v in enumerate(names):
                    self.bind(v, f'{tmp}{proj(idx, len(names))}', ty[idx], env, lines)
                continue
            if k == 'let' and st[3][0] == 'call' and self.mut_call(st[3]) is not None:
                # `let r = f(&mut a.limbs, &mut b.limbs, ..);` — f returns (a', b', r)
                _, name, ann, e = st
                idxs = self.mut_call(e)
                places = []
                for pi in idxs:
                    a = e[2][pi]
                    if a[0] == 'nfield' and a[2] == 'limbs':
                        a = a[1]
                    if a[0] != 'var' or a[1] not in env or env[a[1]][1] != 'uint' or a[1] in places:
                        raise Unsupported('`&mut` argument is not a distinct limb-array variable')
                    places.append(a[1])
                self.allow_mut = True
                t, ty = self.ex(e, env)
                self.allow_mut = False
                self.pn += 1
                tmp = f'p{self.pn}'
                lines.append(f'let {tmp} := {t}')
                for idx, v in enumerate(places):
                    self.bind(v, f'{tmp}{proj(idx, len(ty))}', ty[idx], env, lines)
                if declared is not None:
                    declared.add(name)
                self.bind(name, f'{tmp}{proj(len(ty) - 1, len(ty))}', ty[-1], env, lines)
                continue
            if k == 'let':
                _, name, ann, e = st
                if declared is not None:
                    declared.add(name)
                if ann is None and e[0] == 'lit' and not e[2]:
                    # `let mut i = 0;` — an untyped counter: tracked as a constant, no lean text
                    env[name] = (str(e[1]), 'lit')
                    self.cenv[name] = e[1]
                    continue
                want = ty_of(ann, self.self_ty) if ann else None
                if ann is None and self.untyped(e, env):
                    if self.ext.get('defer_lets'):
                        # the integer type of this `let` is fixed by its use: translated there (see `ex`, 'defer')
                        env[name] = ('?' + name, 'defer', dict(env), e)
                        continue
                    # `let index_mask = 1 << index_in_limb;`: the one integer width with which the rest of the block translates
                    want = self.infer_let_width(name, e, stmts[pos + 1:], env, lines, declared)
                t, ty = self.ex(e, env, want)
                self.bind(name, t, ty, env, lines)
            elif k == 'lettuple':
                _, names, e = st
                if (e[0] == 'tuple' and len(e[1]) == len(names) and any(x[0] == 'lit' and not x[2] for x in e[1])
                        and all(not v.startswith('_') for v in names) and len(set(names)) == len(names)):
                    # `let (mut steps, mut f, mut g) = (62, f[0] as i64, g[0] as i128);`: component-wise `let`s, every
                    # right-hand side evaluated BEFORE any of the names is bound; an untyped literal stays untyped
                    vals = [None if (x[0] == 'lit' and not x[2]) else self.ex(x, env) for x in e[1]]
                    for v, x, val in zip(names, e[1], vals):
                        if declared is not None:
                            declared.add(v)
                        if val is None:
                            env[v] = (str(x[1]), 'lit')
                            self.cenv[v] = x[1]
                        else:
                            self.bind(v, val[0], val[1], env, lines)
                    continue
                t, ty = self.ex(e, env)
                if not isinstance(ty, tuple) or len(ty) != len(names) or len(names) < 2:
                    raise Unsupported('tuple pattern on non-pair')
                self.pn += 1
                tmp = f'p{self.pn}'
                lines.append(f'let {tmp} := {t}')
                for idx, v in enumerate(names):
                    if v != '_' and not v.startswith('_'):
                        if declared is not None:
                            declared.add(v)
                        self.bind(v, f'{tmp}{proj(idx, len(names))}', ty[idx], env, lines)
            elif k == 'assign':
                _, name, op, rhs = st
                if name not in env:
                    raise Unsupported('assignment to unknown ' + name)
                e = rhs if op == '=' else ('bin', op[:-1], ('var', name), rhs)
                cur = env[name][1]
                if cur == 'undef':
                    if op != '=':
                        raise Unsupported('compound assignment to an unassigned variable')
                    t, ty = self.ex(e, env)
                    self.bind(name, t, ty, env, lines)
                    continue
                if cur == 'lit':
                    c = self.const(e)
                    if c is None or c < 0:
                        raise Unsupported('non-constant assignment to an untyped counter')
                    env[name] = (str(c), 'lit')
                    self.cenv[name] = c
                    continue
                t, ty = self.ex(e, env, cur)
                if ty != cur:
                    raise Unsupported(f'assignment changes the type of {name}')
                self.bind(name, t, ty, env, lines)
            elif k == 'assign_idx':
                # `arr[i] = e` / `arr[i] op= e`: a new list with position `i` replaced
                _, name, idx, op, rhs = st
                if name in env and isinstance(env[name][1], tuple):
                    # a fixed array (tuple): `t[K] = e` re-binds `t` to the tuple with component K replaced
                    e = rhs if op == '=' else ('bin', op[:-1], ('index', ('var', name), idx), rhs)
                    self.set_component(name, idx, e, None, env, lines)
                    continue
                if name in env and env[name][1] == 'unsat':
                    # (G18) `x.0[i] = e` / `x.0[i] op= e` on an `UnsatInt`: a new word list with position `i` replaced
                    e = rhs if op == '=' else ('bin', op[:-1], ('index', ('field', ('var', name), 0), idx), rhs)
                    ix, tix = self.ex(idx, env, 'nat')
                    if tix != 'nat':
                        raise Unsupported('index of type ' + str(tix))
                    t, ty = self.ex(e, env, 64)
                    if ty != 64:
                        raise Unsupported('array element of type ' + str(ty))
                    self.bind(name, f'{atom(env[name][0])}.set {atom(ix)} {atom(t)}', 'unsat', env, lines)
                    continue
                if name not in env or env[name][1] != 'uint':
                    raise Unsupported('indexed assignment to ' + name)
                e = rhs if op == '=' else ('bin', op[:-1], ('index', ('var', name), idx), rhs)
                ix, tix = self.ex(idx, env, 'nat')
                if tix != 'nat':
                    raise Unsupported('index of type ' + str(tix))
                t, ty = self.ex(e, env, 'wrap:1')
                if ty != 'wrap:1':
                    raise Unsupported('array element of type ' + str(ty))
                self.bind(name, f'{atom(env[name][0])}.set {atom(ix)} {atom(t)}', 'uint', env, lines)
            elif k == 'while':
                self.do_while(st[1], st[2], env, lines)
            elif k == 'if':
                self.do_if(st[1], st[2], st[3], env, lines)
            elif k == 'assign_tuple':
                self.do_assign_tuple(st[1], st[2], env, lines)
            elif k == 'callstmt':
                # `f(a, &mut x.limbs, &mut y.limbs);` with f a translated function WITHOUT a return type: f returns the final
                # values of its `&mut` slice parameters (in parameter order), which are written back to `x`, `y`
                e = st[1]
                if declared is not None or len(e[1]) != 1:
                    raise Unsupported('statement call inside a loop / of a path')
                ns, sig = self.lookup(e[1][0], 'bare')
                pos = MUTOUT.get((ns, e[1][0])) if sig is not None else None
                if not pos or len(sig[0]) != len(e[2]):
                    raise Unsupported('statement call of ' + e[1][0])
                places = []
                for pi in pos:
                    a = e[2][pi]
                    if a[0] == 'nfield' and a[2] == 'limbs':
                        a = a[1]
                    if a[0] != 'var' or a[1] not in env or env[a[1]][1] != 'uint' or a[1] in places:
                        raise Unsupported('`&mut` argument is not a distinct limb-array variable')
                    places.append(a[1])
                t, ty = self.ex(e, env)
                if ty != (tuple('uint' for _ in places) if len(places) > 1 else 'uint'):
                    raise Unsupported('statement call result ' + str(ty))
                if len(places) == 1:
                    self.bind(places[0], t, 'uint', env, lines)
                else:
                    self.pn += 1
                    tmp = f'p{self.pn}'
                    lines.append(f'let {tmp} := {t}')
                    for idx, v in enumerate(places):
                        self.bind(v, f'{tmp}{proj(idx, len(places))}', 'uint', env, lines)
            elif k == 'ifret':
                # `if cond { return e; }` at the top level of a function: `if cond then e else <the rest>`
                if declared is not None or getattr(self, 'rty', None) is None:
                    raise Unsupported('return inside a loop')
                c, tc = self.ex(st[1], env)
                if tc != 'bool':
                    raise Unsupported('condition of type ' + str(tc))
                t, ty = self.ex(st[2], env, self.rty)
                if ty != self.rty:
                    raise Unsupported(f'return type {ty} vs {self.rty}')
                lines.append(f'if {c} then {t} else')
            elif k == 'loop':
                self.do_loop(st[1], env, lines)
            elif k == 'ifbreak':
                # `if cond { break; }` at the top level of the body of a `while i < BOUND` loop: leave with the state at this point
                if getattr(self, 'break_owner', None) is not stmts:
                    raise Unsupported('break outside the top level of a `while i < BOUND` body')
                c, tc = self.ex(st[1], env)
                if tc != 'bool':
                    raise Unsupported('condition of type ' + str(tc))
                bs = self.break_state
                lines.append(f'if {c} then ' + ('(' + ', '.join(env[s][0] for s in bs) + ')' if len(bs) > 1 else env[bs[0]][0]) + ' else')
            else:
                raise Unsupported('statement ' + k)

    def set_component(self, name, idx, e, val, env, lines):
        """`t[K] = e` on a fixed array (a tuple): `t` re-bound to the tuple with component K replaced (`val` = an already
        translated (text, type) instead of the expression `e`)"""
        ty = env[name][1]
        c = self.const(idx)
        if c is None or not 0 <= c < len(ty):
            raise Unsupported('index into a fixed array')
        t, tt = val if val is not None else self.ex(e, env, ty[c])
        if tt != ty[c]:
            raise Unsupported('array element of type ' + str(tt))
        cur = atom(env[name][0])
        comps = [t if i == c else f'{cur}{proj(i, len(ty))}' for i in range(len(ty))]
        self.bind(name, '(' + ', '.join(comps) + ')', ty, env, lines)

    LOOP_LIT_TYPES = (SInt(64), SInt(32), SInt(128), SInt(8), SInt(16), 64, 32, 128, 8, 16)

    def do_loop(self, body, env, lines):
        """`loop { pre..; if cond { break; } post.. }` (one `break`, at the top level of the body): an auxiliary definition
            `<fn>_loop<k> captured.. : Nat → state.. → state`
        by recursion on a FUEL argument: `| 0, s => s | n + 1, s => pre; if cond then s' else post; recurse n s''`.
        A `loop` has no syntactic trip bound: the fuel is an INPUT of the translation (unit option `fuel`, per function) and
        the bridge theorems have to prove that the `break` is reached within it."""
        body = [('if', st[1], [('break',)], None) if st[0] == 'ifbreak' else st for st in body]     # G16 parses `if c { break; }` as 'ifbreak'
        fuel = (self.ext.get('fuel') or {}).get(self.fname)
        if fuel is None:
            raise Unsupported('`loop` without a declared trip bound')
        brk = [j for j, st in enumerate(body) if st[0] == 'if' and st[2] == [('break',)] and st[3] is None]
        if len(brk) != 1 or has_break(body[:brk[0]]) or has_break(body[brk[0] + 1:]):
            raise Unsupported('loop form: exactly one top-level `if c { break; }`')
        pre, cond, post = body[:brk[0]], body[brk[0]][1], body[brk[0] + 1:]
        assigned = assigned_vars(pre + post)
        if not assigned or any(s not in env for s in assigned):
            raise Unsupported('loop state')
        state = [v for v in env if v in assigned]
        used = free_vars(body, [])
        captured = [v for v in env if v in used and v not in state]
        if any(env[v][1] in ('lit', 'defer') for v in captured):
            raise Unsupported('loop body reads an untyped outer variable')
        if any(env[s][1] == 'defer' for s in state):
            raise Unsupported('loop state')
        untyped = [s for s in state if env[s][1] == 'lit']
        if len(untyped) > 1:
            raise Unsupported('too many untyped loop variables')
        choices = [[w] for w in self.LOOP_LIT_TYPES] if untyped else [[]]
        saved = (self.pn, self.nloop, list(self.aux), dict(self.cenv))
        found, err = [], None
        for ch in choices:
            self.pn, self.nloop, self.aux, self.cenv = saved[0], saved[1], list(saved[2]), {}
            styp = [ch[0] if s in untyped else env[s][1] for s in state]
            try:
                found.append((styp, self.loop_break_text(pre, cond, post, state, styp, captured, env), self.pn, self.nloop, self.aux))
            except Unsupported as ex:
                err = err or ex
        self.pn, self.nloop, self.aux, self.cenv = saved[0], saved[1], list(saved[2]), saved[3]
        if not found:
            raise err
        if any(f[1] != found[0][1] for f in found[1:]):
            raise Unsupported('ambiguous type of an untyped loop variable')
        styp, (text, aux), self.pn, self.nloop, self.aux = found[0]
        self.aux.append(text)
        for s, ty in zip(state, styp):
            if env[s][1] == 'lit':
                env[s] = (f'{env[s][0]}#{ty}', ty)
                self.cenv.pop(s, None)
        callt = (f'({self.ns}.{aux}' + ''.join(f' {atom(env[v][0])}' for v in captured) + f' {fuel} '
                 + ' '.join(atom(env[s][0]) for s in state) + ')')
        if len(state) == 1:
            self.bind(state[0], callt, styp[0], env, lines)
        else:
            self.pn += 1
            tmp = f'p{self.pn}'
            lines.append(f'let {tmp} := {callt}')
            for idx, s in enumerate(state):
                self.bind(s, f'{tmp}{proj(idx, len(state))}', styp[idx], env, lines)

    def loop_break_text(self, pre, cond, post, state, styp, captured, env):
        self.nloop += 1
        aux = f'{self.fname}_loop{self.nloop}'
        env2 = {}
        for v in captured:
            env2[v] = (self.fresh(v, env2), env[v][1])
        for s, ty in zip(state, styp):
            env2[s] = (self.fresh(s, env2), ty)
        nvar = self.fresh('n', env2)
        env2['\0n'] = (nvar, 'nat')
        outer, declared = set(env2), set()
        pat = ', '.join(env2[s][0] for s in state)
        tup = f'({pat})' if len(state) > 1 else pat
        capb = ''.join(f' ({env2[v][0]} : {lean_ty(env2[v][1])})' for v in captured)
        capa = ''.join(f' {env2[v][0]}' for v in captured)
        lty = [(f'({lean_ty(t)})' if isinstance(t, tuple) else lean_ty(t)) for t in styp]
        lines1, lines2 = [], []
        self.run(pre, env2, lines1, declared)
        ctext = self.cond_prop(cond, env2)
        mid = '(' + ', '.join(env2[s][0] for s in state) + ')' if len(state) > 1 else env2[state[0]][0]
        self.run(post, env2, lines2, declared)
        if declared & outer:
            raise Unsupported('loop body shadows an outer variable')
        if any(env2[s][1] != ty for s, ty in zip(state, styp)):
            raise Unsupported('loop state changes type')
        text = (f'@[gen_defs] def {aux}{capb} : Nat → ' + ' → '.join(lty) + ' → ' + ' × '.join(lty) + '\n'
                + f'  | 0, {pat} => {tup}\n'
                + f'  | {nvar} + 1, {pat} =>\n    ' + join_lines('\n    ', lines1 + [f'if {ctext} then {mid} else'] + lines2)
                + f'\n    {self.ns}.{aux}{capa} {nvar} ' + ' '.join(atom(env2[s][0]) for s in state))
        return text, aux

    def do_assign_tuple(self, lvs, rhs, env, lines):
        """`(lv, lv, ..) = e;`: the right-hand side first, then the targets from left to right"""
        t, ty = self.ex(rhs, env)
        if not isinstance(ty, tuple) or len(ty) != len(lvs) or len(lvs) < 2:
            raise Unsupported('tuple assignment of a non-tuple')
        self.pn += 1
        tmp = f'p{self.pn}'
        lines.append(f'let {tmp} := {t}')
        for idx, lv in enumerate(lvs):
            name = lvalue_name(lv)
            if name is None:
                continue
            comp, cty = f'{tmp}{proj(idx, len(lvs))}', ty[idx]
            if name not in env:
                raise Unsupported('assignment to unknown ' + name)
            if lv[0] == 'var':
                if env[name][1] != cty or cty == 'lit':
                    raise Unsupported(f'assignment changes the type of {name}')
                self.bind(name, comp, cty, env, lines)
            else:
                ixe = lv[2] if lv[0] == 'index' else lv[1][2]
                if lv[0] == 'index' and isinstance(env[name][1], tuple):
                    self.set_component(name, ixe, None, (comp, cty), env, lines)
                    continue
                if env[name][1] != 'uint' or cty != ('wrap:1' if lv[0] == 'index' else 64):
                    raise Unsupported('indexed assignment to ' + name)
                ix, tix = self.ex(ixe, env, 'nat')
                if tix != 'nat':
                    raise Unsupported('index of type ' + str(tix))
                self.bind(name, f'{atom(env[name][0])}.set {atom(ix)} {comp}', 'uint', env, lines)

    def do_if(self, cond, then, els, env, lines):
        """an `if` STATEMENT: a conditional update of every outer variable one of the branches assigns (in the order of their
        declaration): `let p := (if c then (<then lets> (state..)) else (<else lets> (state..)))`, then the variables are
        re-bound to the components of `p`"""
        els = els or []
        assigned = assigned_vars(then)
        assigned_vars(els, assigned)
        state = [v for v in env if v in assigned]
        if not state or len(state) != len(assigned):
            raise Unsupported('if statement: assigned variables')
        if any(env[s][1] in ('lit', 'nat') for s in state):
            raise Unsupported('if statement assigns a counter')
        ctext = self.cond_prop(cond, env)
        texts = []
        for blk in (then, els):
            e2, l2, decl, saved = dict(env), [], set(), dict(self.cenv)
            self.run(blk, e2, l2, decl)
            self.cenv = saved
            if decl & set(env):
                raise Unsupported('branch shadows an outer variable')
            if any(e2[s][1] != env[s][1] for s in state):
                raise Unsupported('branch changes the type of a variable')
            l2.append('(' + ', '.join(e2[s][0] for s in state) + ')' if len(state) > 1 else e2[state[0]][0])
            texts.append(join_lines('\n    ', l2))
        self.pn += 1
        tmp = f'p{self.pn}'
        lines.append(f'let {tmp} := (if {ctext} then (\n    {texts[0]})\n  else (\n    {texts[1]}))')
        for idx, s in enumerate(state):
            self.bind(s, f'{tmp}{proj(idx, len(state))}' if len(state) > 1 else tmp, env[s][1], env, lines)

    def untyped(self, e, env):
        try:
            self.ex(e, env, None)
        except Unsupported as ex:
            return str(ex) == 'untyped literal'
        return False

    def infer_let_width(self, name, e, rest, env, lines, declared):
        saved = (self.pn, self.nloop, list(self.aux), dict(self.cenv))
        ok = []
        for w in self.LIT_WIDTHS:
            self.pn, self.nloop, self.aux, self.cenv = saved[0], saved[1], list(saved[2]), dict(saved[3])
            env2, lines2 = dict(env), list(lines)
            try:
                t, ty = self.ex(e, env2, w)
                self.bind(name, t, ty, env2, lines2)
                self.run(rest, env2, lines2, set(declared) if declared is not None else None)
                ok.append(w)
            except Unsupported:
                pass
        self.pn, self.nloop, self.aux, self.cenv = saved[0], saved[1], list(saved[2]), saved[3]
        if len(ok) != 1:
            raise Unsupported('untyped literal')
        return ok[0]

    def run_scoped(self, stmts, env, lines):
        """a loop body: its `let`s are local, its assignments to outer variables persist"""
        inner, declared = dict(env), set()
        self.run(stmts, inner, lines, declared)
        if declared & set(env):
            raise Unsupported('loop body shadows an outer variable')
        for v in env:
            env[v] = inner[v]
        for v in declared:
            self.cenv.pop(v, None)

    def mut_call(self, e):
        """positions of the `&mut` slice parameters when `e` calls a function that has some, else None"""
        p = e[1]
        if len(p) != 1:
            return None
        ns, sig = self.lookup(p[0], 'bare')
        return MUTP.get((ns, p[0])) if sig is not None else None

    def loop_names(self, stmts, assigned, declared):
        """names assigned / declared anywhere in a statement list (nested loops included), in order of first occurrence"""
        for st in stmts:
            k = st[0]
            if k in ('assign', 'assign_idx'):
                if st[1] not in assigned:
                    assigned.append(st[1])
            elif k == 'assigntuple':
                for v in st[1]:
                    if v not in assigned:
                        assigned.append(v)
            elif k in ('let', 'declare'):
                declared.add(st[1])
            elif k == 'lettuple':
                declared.update(v for v in st[1])
            elif k == 'while':
                self.loop_names(st[2], assigned, declared)

    def emit_loop_nat(self, cond, body, env, lines):
        """(`nat_loops` units) `while j < BOUND { body; j += k; }` with a `Nat` counter that is a literal or a symbolic value at
        entry and is used after the loop (`j` runs on into the next loop), BOUND any `Nat` expression over variables the loop
        does not change (`nlimbs - i`), a body that may contain further such loops:
            `<fn>_loop<n> captured.. : Nat → Nat → state.. → Nat × state`
        by recursion on a fuel argument (called with BOUND - start; suffices since k >= 1), the second `Nat` being the counter;
        every round re-tests `j < BOUND`; the final counter is returned in front of the state.
        state = the outer variables assigned in the body or in a loop nested in it, captured = the other outer variables
        read, both in declaration order.  Variables declared without a value (`let mut x;`) are scratch: an assignment
        binds them for the rest of the enclosing body only, they are never loop state."""
        if not (cond[0] == 'bin' and cond[1] == '<' and cond[2][0] == 'var'):
            raise Unsupported('loop form')
        i = cond[2][1]
        if i not in env or env[i][1] not in ('lit', 'nat'):
            raise Unsupported('loop counter')
        if not body or not (body[-1][0] == 'assign' and body[-1][1] == i and body[-1][2] == '+='
                            and body[-1][3][0] == 'lit' and body[-1][3][1] >= 1):
            raise Unsupported('loop form: the body must end with the increment of the counter')
        step, rest = body[-1][3][1], body[:-1]
        assigned, declared_in = [], set()
        self.loop_names(rest, assigned, declared_in)
        if declared_in & set(env):
            raise Unsupported('loop body shadows an outer variable')
        outer_assigned = [v for v in assigned if v not in declared_in]
        if i in outer_assigned or any(v not in env for v in outer_assigned):
            raise Unsupported('loop state')
        state = [v for v in env if v in outer_assigned and env[v][1] != 'undef']
        scratch = [v for v in env if env[v][1] == 'undef']
        if not state or any(env[v][1] in ('lit', 'nat') for v in state):
            raise Unsupported('loop state')
        if set(free_vars(cond[3], [])) & set(outer_assigned + [i]):
            raise Unsupported('loop bound changes inside the loop')
        used = free_vars(rest, []) + free_vars(cond[3], [])
        captured = [v for v in env if v in used and v not in state and v != i and env[v][1] != 'undef']
        if any(env[v][1] == 'lit' for v in captured):
            raise Unsupported('loop body reads an untyped counter')
        self.nloop += 1
        aux = f'{self.fname}_loop{self.nloop}'
        env2 = {}
        for v in captured:
            env2[v] = (self.fresh('self_' if v == 'self' else v, env2), env[v][1])
        styp = [env[s][1] for s in state]
        for s_, ty in zip(state, styp):
            env2[s_] = (self.fresh(s_, env2), ty)
        nvar = self.fresh('n', env2)
        env2['\0n'] = (nvar, 'nat')
        env2[i] = (self.fresh(i, env2), 'nat')
        ivar = env2[i][0]
        for v in scratch:
            env2[v] = ('', 'undef')
        pat = ', '.join(env2[s_][0] for s_ in state)
        capb = ''.join(f' ({env2[v][0]} : {lean_ty(env2[v][1])})' for v in captured)
        capa = ''.join(f' {env2[v][0]}' for v in captured)
        bound, tb = self.ex(cond[3], env2, 'nat')
        if tb != 'nat':
            raise Unsupported('loop bound of type ' + str(tb))
        saved_cenv = dict(self.cenv)
        self.cenv = {}
        lines2, declared = [], set()
        self.run(rest, env2, lines2, declared)
        self.cenv = saved_cenv
        if any(env2[s_][1] != ty for s_, ty in zip(state, styp)) or env2[i] != (ivar, 'nat'):
            raise Unsupported('loop state changes type')
        res = ' × '.join(['Nat'] + [lean_ty(t) for t in styp])
        text = (f'@[gen_defs] def {aux}{capb} : Nat → Nat → ' + ' → '.join(lean_ty(t) for t in styp) + f' → {res}\n'
                + f'  | 0, {ivar}, {pat} => ({ivar}, {pat})\n'
                + f'  | {nvar} + 1, {ivar}, {pat} =>\n    if {ivar} < {bound} then\n      ' + '\n      '.join(lines2)
                + f'\n      {self.ns}.{aux}{capa} {nvar} ({ivar} + {step}) ' + ' '.join(env2[s_][0] for s_ in state)
                + f'\n    else ({ivar}, {pat})')
        self.aux.append(text)
        bound_out, _ = self.ex(cond[3], env, 'nat')
        start = env[i][0]
        callt = (f'({self.ns}.{aux}' + ''.join(f' {atom(env[v][0])}' for v in captured) + f' ({bound_out} - {start}) {atom(start)} '
                 + ' '.join(atom(env[s_][0]) for s_ in state) + ')')
        self.pn += 1
        tmp = f'p{self.pn}'
        lines.append(f'let {tmp} := {callt}')
        self.cenv.pop(i, None)
        self.bind(i, f'{tmp}.1', 'nat', env, lines)
        for idx, s_ in enumerate(state):
            self.bind(s_, f'{tmp}{proj(idx + 1, len(state) + 1)}', styp[idx], env, lines)

    def do_while(self, cond, body, env, lines):
        if OPTS.get('nat_loops'):
            return self.emit_loop_nat(cond, body, env, lines)
        c = self.cond_const(cond)
        if c is not None:
            # (1a) `let mut i = K; while i < N { ..; i += 1; }` with literal K, N and a body that does not read `i`:
            #      an auxiliary definition by recursion on the trip count, called with the literal N - K
            if (cond[1] == '<' and cond[2][0] == 'var' and cond[2][1] in self.cenv and body
                    and body[-1][0] == 'assign' and body[-1][1] == cond[2][1] and body[-1][2] == '+='
                    and body[-1][3][0] == 'lit' and body[-1][3][1] == 1
                    and cond[2][1] not in free_vars(body[:-1], []) and cond[2][1] not in free_vars(cond[3], [])
                    and any(st[0] == 'assign' for st in body[:-1])):
                i = cond[2][1]
                bound = self.const(cond[3])
                trip = max(bound - self.cenv[i], 0)
                self.emit_loop(body[:-1], None, env, lines, str(trip))
                if trip:
                    env[i] = (str(bound), 'lit')
                    self.cenv[i] = bound
                return
            # (1b) any other loop whose condition is a comparison of constants: executed symbolically (unrolled)
            rounds = 0
            while c:
                rounds += 1
                if rounds > 256:
                    raise Unsupported('loop too long to unroll')
                self.run_scoped(body, env, lines)
                c = self.cond_const(cond)
                if c is None:
                    raise Unsupported('loop condition stopped being constant')
            return
        # (3) `let mut i = K; while i < BOUND { ..; i += k; }` with a literal K, a limb-count BOUND (`LIMBS`) and a body that
        #     may use `i` as an index
        if (cond[0] == 'bin' and cond[1] == '<' and cond[2][0] == 'var' and cond[2][1] in self.cenv
                and env.get(cond[2][1], (None, None))[1] == 'lit'):
            return self.emit_loop_up(cond, body, env, lines)
        # (3b) the same with a `usize` variable as start value (`let mut i = shift_num; while i < LIMBS { .. }`)
        if (cond[0] == 'bin' and cond[1] == '<' and cond[2][0] == 'var' and cond[2][1] not in self.cenv
                and env.get(cond[2][1], (None, None))[1] == 'nat' and self.generic and cond[2][1] != self.generic):
            return self.emit_loop_up(cond, body, env, lines)
        # (6) the search loop `while i > 0 && cond(i) { i -= 1; }` over a `usize` counter
        if (cond[0] == 'bin' and cond[1] == '&&' and cond[2] == ('bin', '>', cond[2][2], ('lit', 0, None)) and cond[2][2][0] == 'var'
                and env.get(cond[2][2][1], (None, None))[1] == 'nat'):
            return self.emit_loop_search(cond[2][2][1], cond[3], body, env, lines)
        # (2) `while i > 0 { i -= 1; .. }`: structural recursion on i.toNat
        if not (cond[0] == 'bin' and cond[1] == '>' and cond[2][0] == 'var' and cond[3][0] == 'lit' and cond[3][1] == 0):
            raise Unsupported('loop form')
        i = cond[2][1]
        if i in env and env[i][1] == 'nat':
            # (4) the same loop with a `usize` counter (`let mut i = LIMBS;`): structural recursion on the counter itself
            return self.emit_loop_down(i, body, env, lines)
        if i not in env or not isinstance(env[i][1], int):
            raise Unsupported('loop counter')
        ti, w = env[i]
        if not body or not (body[0][0] == 'assign' and body[0][1] == i and body[0][2] == '-='
                            and body[0][3][0] == 'lit' and body[0][3][1] == 1):
            raise Unsupported('loop form: the body must start with the decrement of the counter')
        self.emit_loop(body[1:], (i, w), env, lines, f'({ti}).toNat')
        env[i] = (f'0#{w}', w)

    def emit_loop(self, rest, counter, env, lines, count):
        """the loop as an auxiliary definition `<fn>_loop<k> captured.. : Nat → state.. → state` by recursion on the
        number of remaining rounds; `counter` = (rust name, width) when the body reads the (already decremented)
        counter, which is `BitVec.ofNat width n` in round `n + 1`; `count` = lean text of the trip count"""
        i = counter[0] if counter else None
        state = []
        for st in rest:
            if st[0] == 'while':
                raise Unsupported('nested loop')
            if st[0] == 'assign' and st[1] not in state:
                state.append(st[1])
        if i in state or any(s not in env or env[s][1] == 'lit' for s in state) or not state:
            raise Unsupported('loop state')
        captured = [v for v in free_vars(rest, []) if v in env and v not in state and v != i]
        if any(env[v][1] == 'lit' for v in captured):
            raise Unsupported('loop body reads an untyped counter')
        self.nloop += 1
        aux = f'{self.fname}_loop{self.nloop}'
        env2 = {}
        for v in captured + state:
            env2[v] = (self.fresh(v, env2), env[v][1])
        nvar = self.fresh('n', env2)
        env2['\0n'] = (nvar, 'nat')
        lines2 = []
        if counter:
            env2[i] = (self.fresh(i, env2), counter[1])
            lines2.append(f'let {env2[i][0]} := BitVec.ofNat {counter[1]} {nvar}')
        outer = set(env2)
        declared = set()
        pat = ', '.join(env2[s][0] for s in state)
        capb = ''.join(f' ({env2[v][0]} : {lean_ty(env2[v][1])})' for v in captured)
        capa = ''.join(f' {env2[v][0]}' for v in captured)
        styp = [env[s][1] for s in state]
        self.run(rest, env2, lines2, declared)
        if declared & outer:
            raise Unsupported('loop body shadows an outer variable')
        if any(env2[s][1] != ty for s, ty in zip(state, styp)):
            raise Unsupported('loop state changes type')
        res = ' × '.join(lean_ty(t) for t in styp)
        text = (f'@[gen_defs] def {aux}{capb} : Nat → ' + ' → '.join(lean_ty(t) for t in styp) + f' → {res}\n'
                + f'  | 0, {pat} => ' + (f'({pat})' if len(state) > 1 else pat) + '\n'
                + f'  | {nvar} + 1, {pat} =>\n    ' + join_lines('\n    ', lines2)
                + f'\n    {self.ns}.{aux}{capa} {nvar} ' + ' '.join(env2[s][0] for s in state))
        self.aux.append(text)
        callt = f'({self.ns}.{aux}' + ''.join(f' {env[v][0]}' for v in captured) + f' {count} ' + ' '.join(env[s][0] for s in state) + ')'
        if len(state) == 1:
            self.bind(state[0], callt, styp[0], env, lines)
        else:
            self.pn += 1
            tmp = f'p{self.pn}'
            lines.append(f'let {tmp} := {callt}')
            for idx, s in enumerate(state):
                self.bind(s, f'{tmp}{proj(idx, len(state))}', styp[idx], env, lines)

    def emit_loop_down(self, i, body, env, lines):
        """`while i > 0 { i -= 1; body }` with a `Nat` counter (`let mut i = LIMBS;`, `let mut i = limbs.len();`, or the
        counter left by a preceding `while i < BOUND` loop) as an auxiliary definition
        `<fn>_loop<j> captured.. : Nat → state.. → state` by structural recursion on the counter: round `n + 1` runs the body
        with `i = n` and recurses with `n`.
        state = the outer variables the body assigns (arrays included), captured = the other outer variables it reads, both
        in the order of their declaration in the function.  An untyped state variable (`let mut count = 0;`) gets the one
        integer width that type-checks the body, as in the ascending form."""
        if not body or not (body[0][0] == 'assign' and body[0][1] == i and body[0][2] == '-='
                            and body[0][3][0] == 'lit' and body[0][3][1] == 1):
            raise Unsupported('loop form: the body must start with the decrement of the counter')
        rest = body[1:]
        assigned, local = [], set()
        for st in rest:
            if st[0] in ('while', 'ifret'):
                raise Unsupported('nested loop')
            if st[0] == 'let':
                local.add(st[1])
            if st[0] == 'lettuple':
                local.update(st[1])
            if st[0] in ('assign', 'assign_idx') and st[1] not in assigned and st[1] not in local:
                assigned.append(st[1])
        if i in assigned or not assigned or any(s not in env for s in assigned):
            raise Unsupported('loop state')
        state = [v for v in env if v in assigned]
        used = free_vars(rest, [])
        if self.generic:
            used.append(self.generic)      # the limb count is not a variable of the Rust text: always passed on
        captured = [v for v in env if v in used and v not in state and v != i]
        if any(env[v][1] == 'lit' for v in captured):
            raise Unsupported('loop body reads an untyped counter')
        untyped = [s for s in state if env[s][1] == 'lit']
        if len(untyped) > 2:
            raise Unsupported('too many untyped loop variables')
        choices = [[]]
        for s in untyped:
            choices = [c + [w] for c in choices for w in self.LIT_WIDTHS]
        saved = (self.pn, self.nloop, list(self.aux), dict(self.cenv))
        found, err = [], Unsupported('loop state')
        for ch in choices:
            self.pn, self.nloop, self.aux, self.cenv = saved[0], saved[1], list(saved[2]), {}
            styp = [ch[untyped.index(s)] if s in untyped else env[s][1] for s in state]
            try:
                found.append((styp, self.loop_down_text(i, rest, state, styp, captured, env), self.pn, self.nloop, self.aux))
            except Unsupported as ex:
                err = ex
        self.pn, self.nloop, self.aux, self.cenv = saved[0], saved[1], list(saved[2]), saved[3]
        if len(found) != 1:
            raise (err if not found else Unsupported('ambiguous type of an untyped loop variable'))
        styp, (text, aux, capa), self.pn, self.nloop, self.aux = found[0]
        self.aux.append(text)
        for s, ty in zip(state, styp):
            if env[s][1] == 'lit':
                env[s] = (f'{env[s][0]}#{ty}', ty)       # the literal initial value, now typed
                self.cenv.pop(s, None)
        callt = (f'({self.ns}.{aux}' + ''.join(f' {atom(env[v][0])}' for v in captured) + f' {atom(env[i][0])} '
                 + ' '.join(atom(env[s][0]) for s in state) + ')')
        if len(state) == 1:
            self.bind(state[0], callt, styp[0], env, lines)
        else:
            self.pn += 1
            tmp = f'p{self.pn}'
            lines.append(f'let {tmp} := {callt}')
            for idx, s in enumerate(state):
                self.bind(s, f'{tmp}{proj(idx, len(state))}', styp[idx], env, lines)
        env[i] = ('0', 'nat')

    def loop_down_text(self, i, rest, state, styp, captured, env):
        self.nloop += 1
        aux = f'{self.fname}_loop{self.nloop}'
        env2 = {}
        for v in captured:
            env2[v] = (self.fresh('self_' if v == 'self' else v, env2), env[v][1])
        for s, ty in zip(state, styp):
            env2[s] = (self.fresh(s, env2), ty)
        nvar = self.fresh('n', env2)
        env2[i] = (nvar, 'nat')           # in round `n + 1` the (already decremented) counter is `n`
        outer, declared = set(env2), set()
        pat = ', '.join(env2[s][0] for s in state)
        tup = f'({pat})' if len(state) > 1 else pat
        capb = ''.join(f' ({env2[v][0]} : {lean_ty(env2[v][1])})' for v in captured)
        capa = ''.join(f' {env2[v][0]}' for v in captured)
        lines2 = []
        self.run(rest, env2, lines2, declared)
        if declared & outer:
            raise Unsupported('loop body shadows an outer variable')
        if any(env2[s][1] != ty for s, ty in zip(state, styp)) or env2[i] != (nvar, 'nat'):
            raise Unsupported('loop state changes type')
        res = ' × '.join(lean_ty(t) for t in styp)
        text = (f'@[gen_defs] def {aux}{capb} : Nat → ' + ' → '.join(lean_ty(t) for t in styp) + f' → {res}\n'
                + f'  | 0, {pat} => {tup}\n'
                + f'  | {nvar} + 1, {pat} =>\n    ' + '\n    '.join(lines2)
                + f'\n    {self.ns}.{aux}{capa} {nvar} ' + ' '.join(env2[s][0] for s in state))
        return text, aux, capa

    LIT_WIDTHS = (8, 32, 64, 128)

    def emit_loop_up(self, cond, body, env, lines):
        """`while i < BOUND { body; i += k; }` (i an untyped counter with the constant value K at entry, BOUND a `Nat`
        expression such as `LIMBS`, k >= 1 a literal) as an auxiliary definition
            `<fn>_loop<j> captured.. : Nat → Nat → state.. → state`
        by recursion on a fuel argument (first `Nat`; BOUND - K rounds always suffice since k >= 1), the second `Nat` being
        the current value of `i`; each round re-tests the loop condition, exactly like the `while`.
        state = the outer variables the body assigns (arrays included: `arr[i] = e` is `arr.set i e`), captured = the
        other outer variables it reads; both in the order of their declaration in the function.
        An untyped state variable (`let mut carry = 1;`) gets the one integer width that type-checks the body."""
        i = cond[2][1]
        start = self.cenv[i] if i in self.cenv else atom(env[i][0])       # a literal, or (3b) a `Nat` term
        if not body or not (body[-1][0] == 'assign' and body[-1][1] == i and body[-1][2] == '+='
                            and body[-1][3][0] == 'lit' and body[-1][3][1] >= 1):
            raise Unsupported('loop form: the body must end with the increment of the counter')
        step = body[-1][3][1]
        rest = body[:-1]
        assigned = []
        local = set()
        for st in rest:
            if st[0] in ('while', 'if', 'assign_tuple'):
                # nested statements: everything assigned at any depth, minus the body's own `let`s; an inner loop becomes an
                # auxiliary definition of its own (emitted first), called from this loop's auxiliary definition
                assigned = assigned_vars(rest)
                break
            if st[0] == 'let':
                local.add(st[1])
            if st[0] == 'lettuple':
                local.update(st[1])
            if st[0] in ('assign', 'assign_idx') and st[1] not in assigned and st[1] not in local:
                assigned.append(st[1])
        if i in assigned or not assigned or any(s not in env for s in assigned):
            raise Unsupported('loop state')
        if set(free_vars(cond[3], [])) & set(assigned + [i]):
            raise Unsupported('loop bound changes inside the loop')
        state = [v for v in env if v in assigned]
        used = free_vars(rest, []) + free_vars(cond[3], [])
        if self.generic:
            used.append(self.generic)      # the limb count is not a variable of the Rust text: always passed on
        captured = [v for v in env if v in used and v not in state and v != i]
        if any(env[v][1] == 'lit' for v in captured):
            raise Unsupported('loop body reads an untyped counter')
        untyped = [s for s in state if env[s][1] == 'lit']
        if len(untyped) > 2:
            raise Unsupported('too many untyped loop variables')
        choices = [[]]
        for s in untyped:
            choices = [c + [w] for c in choices for w in self.LIT_WIDTHS]
        saved = (self.pn, self.nloop, list(self.aux), dict(self.cenv))
        found = []
        for ch in choices:
            self.pn, self.nloop, self.aux, self.cenv = saved[0], saved[1], list(saved[2]), {}
            styp = [ch[untyped.index(s)] if s in untyped else env[s][1] for s in state]
            try:
                found.append((styp, self.loop_up_text(i, step, cond[3], rest, state, styp, captured, env), self.pn, self.nloop, self.aux))
            except Unsupported as ex:
                err = ex
        self.pn, self.nloop, self.aux, self.cenv = saved[0], saved[1], list(saved[2]), saved[3]
        if len(found) != 1:
            raise (err if not found else Unsupported('ambiguous type of an untyped loop variable'))
        styp, (text, aux, capa, bound), self.pn, self.nloop, self.aux = found[0]
        self.aux.append(text)
        for s, ty in zip(state, styp):
            if env[s][1] == 'lit':
                env[s] = (f'{env[s][0]}#{ty}', ty)       # the literal initial value, now typed
                self.cenv.pop(s, None)
        count = bound if start == 0 else f'({bound} - {start})'
        callt = f'({self.ns}.{aux}' + ''.join(f' {atom(env[v][0])}' for v in captured) + f' {count} {start} ' + ' '.join(atom(env[s][0]) for s in state) + ')'
        if len(state) == 1:
            self.bind(state[0], callt, styp[0], env, lines)
        else:
            self.pn += 1
            tmp = f'p{self.pn}'
            lines.append(f'let {tmp} := {callt}')
            for idx, s in enumerate(state):
                self.bind(s, f'{tmp}{proj(idx, len(state))}', styp[idx], env, lines)
        # the counter after the loop: BOUND when it ran 0, 1, .., BOUND - 1; otherwise not tracked (a later use is unsupported)
        self.cenv.pop(i, None)
        if start == 0 and step == 1:
            env[i] = (bound, 'nat')
        else:
            del env[i]
        if any(st[0] == 'ifbreak' for st in rest):
            env.pop(i, None)               # left by `break`: the counter is not BOUND

    def loop_up_text(self, i, step, bound_e, rest, state, styp, captured, env):
        self.nloop += 1
        aux = f'{self.fname}_loop{self.nloop}'
        env2 = {}
        for v in captured:
            env2[v] = (self.fresh('self_' if v == 'self' else v, env2), env[v][1])
        for s, ty in zip(state, styp):
            env2[s] = (self.fresh(s, env2), ty)
        nvar = self.fresh('n', env2)
        env2['\0n'] = (nvar, 'nat')
        env2[i] = (self.fresh(i, env2), 'nat')
        ivar = env2[i][0]
        outer, declared = set(env2), set()
        pat = ', '.join(env2[s][0] for s in state)
        tup = f'({pat})' if len(state) > 1 else pat
        capb = ''.join(f' ({env2[v][0]} : {lean_ty(env2[v][1])})' for v in captured)
        capa = ''.join(f' {env2[v][0]}' for v in captured)
        bound, tb = self.ex(bound_e, env2, 'nat')
        if isinstance(tb, int) and tb <= 64:
            bound, tb = f'({bound}).toNat', 'nat'      # a word bound (`while i < shift_bits`, both `u32`): compared as `Nat`s
        if tb != 'nat':
            raise Unsupported('loop bound of type ' + str(tb))
        lines2 = []
        saved_break = (getattr(self, 'break_owner', None), getattr(self, 'break_state', None))
        self.break_owner, self.break_state = rest, state
        try:
            self.run(rest, env2, lines2, declared)
        finally:
            self.break_owner, self.break_state = saved_break
        if declared & outer:
            raise Unsupported('loop body shadows an outer variable')
        if any(env2[s][1] != ty for s, ty in zip(state, styp)):
            raise Unsupported('loop state changes type')
        res = ' × '.join(lean_ty(t) for t in styp)
        text = (f'@[gen_defs] def {aux}{capb} : Nat → Nat → ' + ' → '.join(lean_ty(t) for t in styp) + f' → {res}\n'
                + f'  | 0, {ivar}, {pat} => {tup}\n'
                + f'  | {nvar} + 1, {ivar}, {pat} =>\n    if {ivar} < {bound} then\n      ' + join_lines('\n      ', lines2)
                + f'\n      {self.ns}.{aux}{capa} {nvar} ({ivar} + {step}) ' + ' '.join(env2[s][0] for s in state)
                + f'\n    else {tup}')
        # the bound as seen from the caller
        bound_out, tbo = self.ex(bound_e, env, 'nat')
        if isinstance(tbo, int):
            bound_out = f'({bound_out}).toNat'
        return text, aux, capa, bound_out

    def emit_loop_search(self, i, test, body, env, lines):
        """`while i > 0 && test(i) { i -= 1; }` (`usize` counter; the body is the decrement alone):
            `<fn>_loop<j> captured.. : Nat → Nat`, `| 0 => 0`, `| n + 1 => if test(n + 1) then <fn>_loop<j> .. n else n + 1`
        by structural recursion on the counter; the result is the final counter"""
        if body != [('assign', i, '-=', ('lit', 1, None))]:
            raise Unsupported('search loop: the body must be the decrement of the counter')
        used = free_vars(test, [])
        captured = [v for v in env if v in used and v != i]
        if any(env[v][1] in ('lit', 'undef') for v in captured):
            raise Unsupported('loop condition reads an untyped counter')
        self.nloop += 1
        aux = f'{self.fname}_loop{self.nloop}'
        env2 = {}
        for v in captured:
            env2[v] = (self.fresh('self_' if v == 'self' else v, env2), env[v][1])
        nvar = self.fresh('n', env2)
        env2[i] = (f'({nvar} + 1)', 'nat')
        saved_cenv, self.cenv = self.cenv, {}
        c, tc = self.ex(test, env2)
        self.cenv = saved_cenv
        if tc != 'bool':
            raise Unsupported('loop condition of type ' + str(tc))
        capb = ''.join(f' ({env2[v][0]} : {lean_ty(env2[v][1])})' for v in captured)
        capa = ''.join(f' {env2[v][0]}' for v in captured)
        self.aux.append(f'@[gen_defs] def {aux}{capb} : Nat → Nat\n  | 0 => 0\n  | {nvar} + 1 =>\n'
                        f'    if {c} then {self.ns}.{aux}{capa} {nvar} else {nvar} + 1')
        callt = f'({self.ns}.{aux}' + ''.join(f' {atom(env[v][0])}' for v in captured) + f' {atom(env[i][0])})'
        self.cenv.pop(i, None)
        self.bind(i, callt, 'nat', env, lines)

    def loop_ret(self, body, env, rty):
        """`loop { rest; if i == 0 { return E; } i -= 1; }` as the last statement of a function (left only by `return`):
            `<fn>_loop<j> captured.. : Nat → R`, `| 0 => <rest with i = 0>; E`, `| n + 1 => <rest with i = n + 1>; <fn>_loop<j> .. n`
        by structural recursion on the counter (the patterns are the outcomes of the test `i == 0`); -> the call"""
        if len(body) < 2 or body[-1][0] != 'assign' or body[-1][2:] != ('-=', ('lit', 1, None)):
            raise Unsupported('loop form: `loop` must end with `if i == 0 { return e; } i -= 1;`')
        i = body[-1][1]
        if body[-2][0] != 'ifret' or body[-2][1] != ('bin', '==', ('var', i), ('lit', 0, None)) or env.get(i, (None, None))[1] != 'nat':
            raise Unsupported('loop form: `loop` must end with `if i == 0 { return e; } i -= 1;`')
        rest, exit_e = body[:-2], body[-2][2]
        if assigned_vars(rest) or any(st[0] in ('while', 'loop', 'if', 'assign_tuple', 'assigntuple') for st in rest):
            raise Unsupported('loop with return: assignments to outer variables / nested statements')
        used = free_vars(rest, []) + free_vars(exit_e, [])
        if self.generic:
            used.append(self.generic)
        captured = [v for v in env if v in used and v != i]
        if any(env[v][1] in ('lit', 'undef') for v in captured):
            raise Unsupported('loop body reads an untyped counter')
        self.nloop += 1
        aux = f'{self.fname}_loop{self.nloop}'
        base = {}
        for v in captured:
            base[v] = (self.fresh('self_' if v == 'self' else v, base), env[v][1])
        nvar = self.fresh('n', base)
        capb = ''.join(f' ({base[v][0]} : {lean_ty(base[v][1])})' for v in captured)
        capa = ''.join(f' {base[v][0]}' for v in captured)
        saved_cenv = self.cenv
        cases = []
        for ival in ('0', f'({nvar} + 1)'):
            env2, lines2 = dict(base), []
            env2['\0n'] = (nvar, 'nat')
            env2[i] = (ival, 'nat')
            self.cenv = {}
            self.run(rest, env2, lines2, None)
            if ival == '0':
                t, ty = self.ex(exit_e, env2, rty)
                if ty != rty:
                    raise Unsupported(f'return type {ty} vs {rty}')
                lines2.append(t)
            else:
                lines2.append(f'{self.ns}.{aux}{capa} {nvar}')
            cases.append(join_lines('\n    ', lines2))
        self.cenv = saved_cenv
        self.aux.append(f'@[gen_defs] def {aux}{capb} : Nat → {lean_ty(rty)}\n  | 0 =>\n    {cases[0]}\n  | {nvar} + 1 =>\n    {cases[1]}')
        return f'{self.ns}.{aux}' + ''.join(f' {atom(env[v][0])}' for v in captured) + f' {atom(env[i][0])}'

    def body(self, body, env, rty, outs=None):
        """function body -> lean lines; `outs`: the `&mut` slice parameters of a function without a return type, whose final
        values are the result"""
        body = re.sub(r'//[^\n]*', '', body)
        if self.ext.get('defer_lets'):
            # round 4 (safegcd unit): cfg-selected inner blocks, nested `const fn` items
            body = strip_nested_fns(select_cfg_blocks(body))
        body = re.sub(r'#\[[^\]]*\]', '', body)
        body = strip_debug_asserts(body)
        if OPTS.get('skip_asserts'):
            body = strip_debug_asserts(re.sub(r'\bassert\s*!', 'debug_assert!', re.sub(r'"[^"\n]*"', '0', body)))
        body = self.take_asserts(body, env)
        if outs:
            body, self.guards = strip_panic_guards(body)
        elif OPTS.get('panic_guards'):
            body, self.guards = strip_panic_guards(body)
        pr = P(tokenize(body))
        stmts, final = pr.block()
        if pr.peek()[0] != 'eof':
            raise Unsupported('trailing tokens in body')
        if final is None and outs:
            lines = []
            env = dict(env)
            self.run(stmts, env, lines)
            lines.append('(' + ', '.join(env[o][0] for o in outs) + ')' if len(outs) > 1 else env[outs[0]][0])
            return lines
        if final is None and stmts and stmts[-1][0] == 'loop':
            # a function whose last statement is a `loop` left only by `return`: its value is the loop's
            lines = []
            env = dict(env)
            self.rty = rty
            self.run(stmts[:-1], env, lines)
            lines.append(self.loop_ret(stmts[-1][1], env, rty))
            return lines
        if final is None:
            raise Unsupported('no final expression')
        lines = []
        env = dict(env)
        self.rty = rty
        self.run(stmts, env, lines)
        if self.mutparams:
            # the new values of the `&mut` slice parameters, then the result
            final = ('tuple', [('var', v) for v in self.mutparams] + [final])
        t, ty = self.ex(final, env, rty)
        if ty != rty and not (ty == 64 and rty == 'choice') and not (ty == 'choice' and rty == 64):
            raise Unsupported(f'return type {ty} vs {rty}')
        lines.append(t)
        return lines

    def take_asserts(self, body, env):
        """`assert!(cond, "message");` statements at the start of a body -> removed from the text; their conjunction
        becomes the auxiliary definition `<fn>_asserts : <parameters> → Bool` (env = the parameters at this point).
        An `assert!` anywhere else is left in place (and is outside the subset: the function is not translated)."""
        conds = []
        ASSERTING.discard((self.ns, self.fname))
        while True:
            m = re.match(r'\s*assert\s*!\s*\(', body)
            if not m:
                break
            depth, j, comma, instr = 1, m.end(), None, False
            while depth and j < len(body):
                ch = body[j]
                if instr:
                    if ch == '\\':
                        j += 1
                    elif ch == '"':
                        instr = False
                elif ch == '"':
                    instr = True
                elif ch in '([{':
                    depth += 1
                elif ch in ')]}':
                    depth -= 1
                elif ch == ',' and depth == 1 and comma is None:
                    comma = j
                j += 1
            if depth:
                raise Unsupported('unbalanced assert!')
            m2 = re.match(r'\s*;', body[j:])
            if not m2:
                raise Unsupported('assert! used as an expression')
            pr = P(tokenize(body[m.end():(comma if comma is not None else j - 1)]))
            ce = pr.expr()
            if pr.peek()[0] != 'eof':
                raise Unsupported('assert! condition')
            t, ty = self.ex(ce, env)
            if ty != 'bool':
                raise Unsupported('assert! condition of type ' + str(ty))
            conds.append(t)
            body = body[j + m2.end():]
        if conds:
            binders = ''.join(f'({ln} : {lean_ty(t)}) ' for ln, t in env.values())
            self.aux.append(f'@[gen_defs] def {self.fname}_asserts {binders}: Bool :=\n  ' + ' && '.join(conds))
            ASSERTING.add((self.ns, self.fname))
        return body

    def fresh(self, v, env):
        used = {x[0] for x in env.values()}
        nm, k = v, 0
        while nm in used:
            k += 1
            nm = f'{v}{k}'
        return nm


# ------------------------------------------------------------------ round 4 (G13): `Int<LIMBS>`, if-expressions, constants
# (additive: the functions / methods above are wrapped, not edited)

# associated constants as fixed definitions: (type, name) -> (file, expected defining text (whitespace-insensitive), lean body)
CONSTS = {
    ('Uint', 'MAX'): ('src/uint.rs', ['pub const MAX: Self = Self { limbs: [Limb::MAX; LIMBS], };'],
                      '(List.replicate LIMBS (~~~0#64))', 'uint'),
    ('Uint', 'ONE'): ('src/uint.rs', ['pub const ONE: Self = Self::from_u8(1);'],
                      '((List.replicate LIMBS 0#64).set 0 1#64)', 'uint'),
    ('Int', 'MAX'): ('src/int.rs', ['pub const MAX: Self = Self(Uint::MAX.shr(1u32));'],
                     '((List.replicate LIMBS (~~~0#64)).set (LIMBS - 1) ((~~~0#64) >>> 1))', 'int'),
    ('Int', 'MIN'): ('src/int.rs', ['pub const MIN: Self = Self(Uint::MAX.bitxor(&Uint::MAX.shr(1u32)));'],
                     '((List.replicate LIMBS 0#64).set (LIMBS - 1) (1#64 <<< 63))', 'int'),
    ('Int', 'SIGN_MASK'): ('src/int.rs', ['pub const SIGN_MASK: Self = Self::MIN;', 'pub const MIN: Self = Self(Uint::MAX.bitxor(&Uint::MAX.shr(1u32)));'],
                           '((List.replicate LIMBS 0#64).set (LIMBS - 1) (1#64 <<< 63))', 'int'),
    ('Int', 'ONE'): ('src/int.rs', ['pub const ONE: Self = Self(Uint::ONE);'],
                     '((List.replicate LIMBS 0#64).set 0 1#64)', 'int'),
}
# constants whose source text matched on this run: (type, name) -> lean namespace
CONST_OK = {}


def const_text_ok(ty, name):
    rel, expected, _, _ = CONSTS[(ty, name)]
    try:
        src = re.sub(r'//[^\n]*', '', open(os.path.join(REPO, rel)).read())
    except OSError:
        return False
    flat = re.sub(r'\s+', '', src)
    return all(re.sub(r'\s+', '', x) in flat for x in expected)


def emit_consts(u, ns, parts, report):
    """the fixed definitions of the unit's associated constants (right after the `namespace` line; `@[gen_defs]` on a line
    of its own so that `read_last` does not take them for translated functions)"""
    for name in u.get('consts', []):
        key = (u['self_ty'], name)
        _, expected, body, _ = CONSTS[key]
        parts.append(f'/-- the constant `{u["self_ty"]}::{name}` (fixed text; the source must say `{expected[0]}`) -/\n@[gen_defs]\ndef {name} (LIMBS : Nat) : List (BitVec 64) :=\n  {body}\n')
        if const_text_ok(*key):
            CONST_OK[key] = ns
            report['translated'].append(f'{ns}.{name} (constant, source text checked)')
        else:
            CONST_OK.pop(key, None)
            report['kept_last'].append(dict(fn=f'{ns}.{name} (constant)', why='the defining expression in the source changed'))


_ty_of_r3 = ty_of


def ty_of(t, self_ty):
    t0 = t.strip()
    if self_ty == 'Int':
        if t0 == 'Self' or re.match(r'Int\s*<\s*LIMBS\s*>$', t0):
            return 'int'         # an `Int<LIMBS>`: the limbs of the inner `Uint`
        if re.match(r'Uint\s*<\s*LIMBS\s*>$', t0):
            return 'uint'
        m = re.match(r'ConstCtOption\s*<\s*(.+?)\s*>$', t0)
        if m:
            return (ty_of(m.group(1), self_ty), 'choice')      # (value, is_some)
    return _ty_of_r3(t, self_ty)


_lean_ty_r3 = lean_ty


def lean_ty(t):
    if t in ('int', 'words'):
        return 'List (BitVec 64)'
    if isinstance(t, tuple):
        return ' × '.join((f'({lean_ty(x)})' if isinstance(x, tuple) else lean_ty(x)) for x in t)
    return _lean_ty_r3(t)


def _p_if_expr(self):
    """`if cond { [lets] e } else { [lets] e }` / `else if ..` as an EXPRESSION -> ('ifexpr', cond, (stmts, e), (stmts, e))"""
    self.eat('id', 'if')
    save, self.nostruct = self.nostruct, True
    cond = self.expr()
    self.nostruct = False
    self.eat('op', '{')
    s1, f1 = self.block()
    self.eat('op', '}')
    if f1 is None or not self.at('else'):
        raise Unsupported('if expression without a value / else')
    self.eat()
    if self.at('if'):
        s2, f2 = [], _p_if_expr(self)
    else:
        self.eat('op', '{')
        s2, f2 = self.block()
        self.eat('op', '}')
        if f2 is None:
            raise Unsupported('else branch without a value')
    self.nostruct = save
    return ('ifexpr', cond, (s1, f1), (s2, f2))


_p_if_r3, _p_block_r3, _p_primary_r3 = P.if_, P.block, P.primary


def _p_if(self):
    save = self.i, self.nostruct
    try:
        return _p_if_r3(self)
    except Unsupported as ex:
        if 'ends in an expression' not in str(ex):
            raise
    self.i, self.nostruct = save
    return _p_if_expr(self)


def _p_block(self):
    stmts, fin = _p_block_r3(self)
    if fin is None and stmts and stmts[-1][0] == 'ifexpr':
        fin = stmts.pop()          # an `if` expression in final position
    return stmts, fin


def _p_primary(self):
    if self.peek() == ('id', 'if'):
        return _p_if_expr(self)
    return _p_primary_r3(self)


P.if_, P.block, P.primary = _p_if, _p_block, _p_primary

_free_vars_r3 = free_vars


def free_vars(x, acc):
    if isinstance(x, tuple) and x and x[0] == 'ifexpr':
        free_vars(x[1], acc)
        for stmts, fin in x[2:]:
            free_vars(stmts, acc); free_vars(fin, acc)
        return acc
    return _free_vars_r3(x, acc)


def _same(a, b):
    n = lambda t: 64 if t == 'choice' else t
    return n(a) == n(b)


_ex_r3, _lookup_r3, _is_nat_r3 = Gen.ex, Gen.lookup, Gen.is_nat


def _gen_const(self, p):
    """`Int::MAX`, `Uint::MAX`, `Self::MIN` .. -> (lean text, type) or None"""
    if len(p) != 2 or not self.generic:
        return None
    ty = self.self_ty if p[0] == 'Self' else p[0]
    if (ty, p[1]) not in CONSTS:
        return None
    if (ty, p[1]) not in CONST_OK:
        raise Unsupported(f'constant {ty}::{p[1]} changed in the source (or its unit is not generated)')
    return f'({CONST_OK[(ty, p[1])]}.{p[1]} {self.generic})', CONSTS[(ty, p[1])][3]


def _gen_ex(self, e, env, want=None):
    k = e[0]
    if k == 'ifexpr':
        ctext = self.cond_prop(e[1], env)
        texts, tys = [], []
        for stmts, fin in e[2:]:
            if assigned_vars(stmts):
                raise Unsupported('if expression: a branch assigns an outer variable')
            e2, l2, saved = dict(env), [], dict(self.cenv)
            self.run(stmts, e2, l2, set())
            t, ty = self.ex(fin, e2, want)
            self.cenv = saved
            l2.append(t)
            texts.append(join_lines('\n    ', l2))
            tys.append(ty)
        if not _same(tys[0], tys[1]):
            raise Unsupported(f'if expression: branch types {tys[0]} / {tys[1]}')
        return f'(if {ctext} then {atom(texts[0])} else {atom(texts[1])})', tys[0]
    if k == 'path':
        p = e[1]
        if self.generic and (p == ['Self', self.generic] or p == [self.self_ty, self.generic]):
            return env[self.generic][0], 'nat'
        if p[0] == 'Word' and len(p) == 2 and p[1] in ('ZERO', 'ONE'):
            return {'ZERO': '0#64', 'ONE': '1#64'}[p[1]], 64
        c = _gen_const(self, p)
        if c:
            return c
    if k == 'field' and e[2] == 0:
        t, ty = self.ex(e[1], env)
        if ty == 'int':
            return t, 'uint'           # the `Uint` inside an `Int`
    if k == 'index':
        t, ty = self.ex(e[1], env)
        if ty == 'words':
            ix, tix = self.ex(e[2], env, 'nat')
            if tix != 'nat':
                raise Unsupported('index of type ' + str(tix))
            return f'({atom(t)}.getD {atom(ix)} 0#64)', 64
    if k == 'method':
        r, tr = self.ex(e[2], env)
        if tr == 'int':
            return self.call(e[1], [e[2]] + e[3], env, 'int')
        if tr == 'uint' and e[1] == 'to_words' and not e[3]:
            return r, 'words'
        if tr == 'uint' and e[1] in ('wrapping_add', 'wrapping_sub', 'wrapping_mul', 'wrapping_neg', 'overflowing_add',
                                     'saturating_mul', 'leading_zeros'):
            return self.call(e[1], [e[2]] + e[3], env, 'uint')      # the method of `Uint`, not the word operation of that name
    if k == 'call':
        p = e[1]
        if (p == ['Self'] and self.self_ty == 'Int') or p == ['Int']:
            if len(e[2]) != 1:
                raise Unsupported('Int(..) arity')
            t, ty = self.ex(e[2][0], env)
            if ty != 'uint':
                raise Unsupported('Int(non-Uint)')
            return t, 'int'
        if p == ['ConstCtOption', 'new'] and len(e[2]) == 2:
            v, tv = self.ex(e[2][0], env)
            c, tc = self.ex(e[2][1], env)
            if not _same(tc, 'choice'):
                raise Unsupported('ConstCtOption::new: is_some of type ' + str(tc))
            return f'({v}, {c})', (tv, 'choice')
        if len(p) == 2 and p[0] == 'Int' and self.self_ty != 'Int':
            return self.call(p[1], e[2], env, 'int')
        if len(p) == 2 and p[0] == 'Int' and self.self_ty == 'Int':
            return self.call(p[1], e[2], env, 'self')
    return _ex_r3(self, e, env, want)


def _gen_lookup(self, name, where):
    if where == 'int':
        if self.self_ty == 'Int':
            return (self.ns, self.sigs[name]) if name in self.sigs else (None, None)
        c = self.ext.get('int')
        return (c[0], c[1].get(name)) if c else (None, None)
    ns, sig = _lookup_r3(self, name, where)
    if sig is None:
        # a method of `Limb` / `Uint` that the current `impl Limb` / `impl Uint` unit does not define itself: the Chains unit,
        # then the further units (`limb_more` / `uint_more`)
        w = {'Limb': 'limb', 'Uint': 'uint'}.get(self.self_ty) if where == 'self' else where
        if w in ('limb', 'uint') and (where == 'self' or self.self_ty == {'limb': 'Limb', 'uint': 'Uint'}[w]):
            for c in [self.ext.get(w)] + list(self.ext.get(w + '_more', [])):
                if c and name in c[1] and c[0] != self.ns:
                    return c[0], c[1][name]
    return ns, sig


def _gen_is_nat(self, e, env):
    if e[0] == 'path' and self.generic and (e[1] == ['Self', self.generic] or e[1] == [self.self_ty, self.generic]):
        return True
    return _is_nat_r3(self, e, env)


Gen.ex, Gen.lookup, Gen.is_nat = _gen_ex, _gen_lookup, _gen_is_nat


# ---- `Uint::from_u128`: `16 / Limb::BYTES`, a call at ANOTHER limb count through a type alias (`U64::from_u64(..)`), whose
#      `assert!`s join the caller's

def _nat_const(e):
    """a constant index expression: literals, `Limb::BYTES` (8), `Limb::BITS` (64), `+ - * /` -> int or None"""
    k = e[0]
    if k == 'lit' and e[2] in (None, 'usize'):
        return e[1]
    if k == 'path' and e[1] == ['Limb', 'BYTES']:
        return 8
    if k == 'path' and e[1] == ['Limb', 'BITS']:
        return 64
    if k == 'bin' and e[1] in ('+', '-', '*', '/'):
        a, b = _nat_const(e[2]), _nat_const(e[3])
        if a is None or b is None or (e[1] == '/' and b == 0) or (e[1] == '-' and a < b):
            return None
        return {'+': a + b, '-': a - b, '*': a * b, '/': a // b if b else None}[e[1]]
    return None


_ex_r3b, _body_r3 = Gen.ex, Gen.body


def _gen_ex2(self, e, env, want=None):
    k = e[0]
    if k == 'bin' and e[1] == '/' and want == 'nat':
        c = _nat_const(e)
        if c is None:
            raise Unsupported('index division')
        return str(c), 'nat'
    if k == 'call' and len(e[1]) == 2 and re.match(r'U\d+$', e[1][0]) and self.self_ty == 'Uint' and self.generic:
        # `U64::from_u64(x)`: the same unit at the limb count of the alias (64-bit limbs); the callee's `assert!`s are added to
        # the caller's `<fn>_asserts` (their arguments must be expressions over the caller's parameters)
        bits, name = int(e[1][0][1:]), e[1][1]
        if bits % 64 or name not in self.sigs:
            raise Unsupported('call ' + '::'.join(e[1]))
        ptys, rty = self.sigs[name]
        if len(ptys) != len(e[2]):
            raise Unsupported('arity ' + name)
        parts = []
        for a, pt in zip(e[2], ptys):
            t, ty = self.ex(a, env, pt)
            if not _same(ty, pt):
                raise Unsupported(f'argument type {ty} for {pt} in {name}')
            parts.append(atom(t))
        if (self.ns, name) in ASSERTING:
            entry = getattr(self, 'entry_env', {})
            for v in free_vars(e[2], []):
                if v not in entry or env.get(v) != entry[v]:
                    raise Unsupported('call to a function with assert! whose arguments are not expressions over the parameters')
            self.called_asserts.append(f'({self.ns}.{name}_asserts {bits // 64} ' + ' '.join(parts) + ')')
        return f'({self.ns}.{name} {bits // 64} ' + ' '.join(parts) + ')', rty
    return _ex_r3b(self, e, env, want)


def _gen_body(self, body, env, rty, outs=None):
    self.entry_env, self.called_asserts = dict(env), []
    lines = _body_r3(self, body, env, rty, outs)
    if self.called_asserts:
        head = f'@[gen_defs] def {self.fname}_asserts '
        extra = ' && '.join(dict.fromkeys(self.called_asserts))
        for j, a in enumerate(self.aux):
            if a.startswith(head):
                self.aux[j] = a + ' && ' + extra
                break
        else:
            binders = ''.join(f'({ln} : {lean_ty(t)}) ' for ln, t in self.entry_env.values())
            self.aux.append(f'{head}{binders}: Bool :=\n  ' + extra)
            ASSERTING.add((self.ns, self.fname))
    return lines


Gen.ex, Gen.body = _gen_ex2, _gen_body


# ---- round 4, G17 (division by a limb): `u.as_limbs()` — the `[Limb; LIMBS]` of a `Uint`: the limb list itself

_ex_r4 = Gen.ex


def _gen_ex4(self, e, env, want=None):
    if e[0] == 'method' and e[1] == 'as_limbs' and not e[3]:
        r, tr = self.ex(e[2], env)
        if tr == 'uint':
            return r, 'uint'
    if (e[0] == 'call' and len(e[1]) == 2 and e[1][0] in STRUCTS and e[1][0] != self.self_ty):
        # `Reciprocal::new(d)` from another unit: the `impl Reciprocal` unit among the units listed under `use`
        for ns, sg in self.ext.get('use', []):
            if ns.endswith('.' + e[1][0]) and e[1][1] in sg and ns not in GENERIC_NS:
                ptys, rty = sg[e[1][1]]
                if len(ptys) != len(e[2]):
                    raise Unsupported('arity ' + '::'.join(e[1]))
                parts = []
                for a, pt in zip(e[2], ptys):
                    t, ty = self.ex(a, env, pt)
                    if ty != pt:
                        raise Unsupported(f'argument type {ty} for {pt} in ' + '::'.join(e[1]))
                    parts.append(atom(t))
                return f'({ns}.{e[1][1]} ' + ' '.join(parts) + ')', rty
    if e[0] == 'call' and len(e[1]) == 1 and not self.generic:
        # a call from a NON-generic function into a unit generic over the limb count, the `Uint` arguments being
        # `Uint::from_words([w0, .., wk-1])`: the callee at the limb count k of the literal, the value the list of those words
        ns, sig = self.lookup(e[1][0], 'bare')
        if sig is not None and ns in GENERIC_NS and ns != self.ns:
            ptys, rty = sig
            if len(ptys) != len(e[2]):
                raise Unsupported('arity ' + e[1][0])
            parts, count = [], None
            for a, pt in zip(e[2], ptys):
                if pt == 'uint':
                    if not (a[0] == 'call' and a[1] == ['Uint', 'from_words'] and len(a[2]) == 1 and a[2][0][0] == 'tuple'):
                        raise Unsupported('call into a generic unit from outside')
                    ws = []
                    for w in a[2][0][1]:
                        t, ty = self.ex(w, env, 64)
                        if ty != 64:
                            raise Unsupported('Uint::from_words of a non-word')
                        ws.append(t)
                    if count not in (None, len(ws)):
                        raise Unsupported('Uint::from_words literals of different lengths')
                    count = len(ws)
                    parts.append('[' + ', '.join(ws) + ']')
                else:
                    t, ty = self.ex(a, env, pt)
                    if ty != pt:
                        raise Unsupported(f'argument type {ty} for {pt} in {e[1][0]}')
                    parts.append(atom(t))
            if count is None:
                raise Unsupported('call into a generic unit from outside')
            return f'({ns}.{e[1][0]} {count} ' + ' '.join(parts) + ')', rty
    return _ex_r4(self, e, env, want)


Gen.ex = _gen_ex4

# a Rust local whose name is a Lean keyword (`let rec = Reciprocal::new(d);`) gets a trailing underscore
LEAN_KEYWORDS = {'rec', 'fun', 'do', 'at', 'from', 'have', 'show', 'then', 'end', 'open', 'def', 'theorem', 'by', 'with', 'in',
                 'instance', 'structure', 'namespace', 'section', 'variable', 'universe', 'example', 'axiom', 'where', 'deriving'}
_fresh_r4 = Gen.fresh


def _gen_fresh4(self, v, env):
    return _fresh_r4(self, v + '_' if v in LEAN_KEYWORDS else v, env)


Gen.fresh = _gen_fresh4

# unit option `usize_param_nat`: a `usize` PARAMETER (`limbs_num: usize`) is a `Nat` (limb counts and indices are `Nat`s)
_ty_of_r4 = ty_of


def ty_of(t, self_ty):
    if OPTS.get('usize_param_nat') and t.strip() == 'usize':
        return 'nat'
    return _ty_of_r4(t, self_ty)


# a seventh `while` form: `while i > 0 { ..; i -= 1; }` with a `usize` counter and the decrement as the LAST statement of the
# body: `<fn>_loop<j> captured.. : Nat → state.. → state` by structural recursion on the counter, round `n + 1` runs the body
# with `i = n + 1` and recurses with `n` (the fifth form of the seventh group runs it with `i = n`)
_emit_loop_down_r4, _loop_down_text_r4 = Gen.emit_loop_down, Gen.loop_down_text


def _is_dec(st, i):
    return st[0] == 'assign' and st[1] == i and st[2] == '-=' and st[3][0] == 'lit' and st[3][1] == 1


def _emit_loop_down4(self, i, body, env, lines):
    if len(body) >= 2 and _is_dec(body[-1], i) and not _is_dec(body[0], i):
        self.down_last = True
        try:
            return _emit_loop_down_r4(self, i, [body[-1]] + body[:-1], env, lines)
        finally:
            self.down_last = False
    return _emit_loop_down_r4(self, i, body, env, lines)


def _loop_down_text4(self, i, rest, state, styp, captured, env):
    if not getattr(self, 'down_last', False):
        return _loop_down_text_r4(self, i, rest, state, styp, captured, env)
    self.nloop += 1
    aux = f'{self.fname}_loop{self.nloop}'
    env2 = {}
    for v in captured:
        env2[v] = (self.fresh('self_' if v == 'self' else v, env2), env[v][1])
    for s, ty in zip(state, styp):
        env2[s] = (self.fresh(s, env2), ty)
    nvar = self.fresh('n', env2)
    env2[i] = (f'({nvar} + 1)', 'nat')           # the decrement is the last statement: in round `n + 1` the body sees `i = n + 1`
    outer, declared = set(env2), set()
    pat = ', '.join(env2[s][0] for s in state)
    tup = f'({pat})' if len(state) > 1 else pat
    capb = ''.join(f' ({env2[v][0]} : {lean_ty(env2[v][1])})' for v in captured)
    capa = ''.join(f' {env2[v][0]}' for v in captured)
    lines2 = []
    self.run(rest, env2, lines2, declared)
    if declared & outer:
        raise Unsupported('loop body shadows an outer variable')
    if any(env2[s][1] != ty for s, ty in zip(state, styp)) or env2[i] != (f'({nvar} + 1)', 'nat'):
        raise Unsupported('loop state changes type')
    res = ' × '.join(lean_ty(t) for t in styp)
    text = (f'@[gen_defs] def {aux}{capb} : Nat → ' + ' → '.join(lean_ty(t) for t in styp) + f' → {res}\n'
            + f'  | 0, {pat} => {tup}\n'
            + f'  | {nvar} + 1, {pat} =>\n    ' + '\n    '.join(lines2)
            + f'\n    {self.ns}.{aux}{capa} {nvar} ' + ' '.join(env2[s][0] for s in state))
    return text, aux, capa


Gen.emit_loop_down, Gen.loop_down_text = _emit_loop_down4, _loop_down_text4


# ---- round 4, G18: `UnsatInt<LIMBS>` (src/modular/safegcd.rs) — a newtype over `[u64; LIMBS]`, the list of its 62-bit words

# `UnsatInt::LIMB_BITS` / `UnsatInt::MASK` as read from the source being translated (unit option `unsat`): name -> int / lean text
UNSAT_CONSTS = {}

_ty_of_g18, _lean_ty_g18 = ty_of, lean_ty
# `struct SafeGcdInverter<..> { modulus: UnsatInt<UNSAT_LIMBS>, adjuster: UnsatInt<UNSAT_LIMBS>, inverse: i64 }` as read from the
# source (unit option `inverter`): [(field, type)]
INVERTER_FIELDS = []


def read_inverter_fields(src):
    INVERTER_FIELDS.clear()
    m = re.search(r'\bstruct\s+SafeGcdInverter\s*<[^>]*>\s*\{([^}]*)\}', src)
    if not m:
        return
    body = re.sub(r'#\[[^\]]*\]', '', re.sub(r'//[^\n]*', '', m.group(1)))
    out = []
    for f in [x.strip() for x in body.split(',') if x.strip()]:
        f = re.sub(r'^pub(?:\([a-z]+\))?\s+', '', f)
        n, t = [x.strip() for x in f.split(':', 1)]
        try:
            out.append((n, ty_of(t, None)))
        except Unsupported:
            return
    INVERTER_FIELDS.extend(out)


def ty_of(t, self_ty):
    t0 = t.strip()
    if OPTS.get('unsat') and (re.match(r'UnsatInt\s*<\s*(LIMBS|UNSAT_LIMBS)\s*>$', t0) or (t0 == 'Self' and self_ty == 'UnsatInt')):
        return 'unsat'       # an `UnsatInt<LIMBS>`: the list of its 62-bit words (each a `u64`), little endian
    if OPTS.get('unsat') and t0 == 'Self' and self_ty == 'SafeGcdInverter' and INVERTER_FIELDS:
        return tuple(t for _, t in INVERTER_FIELDS)      # `&self` of the inverter: the tuple of its fields, in declaration order
    return _ty_of_g18(t, self_ty)


def lean_ty(t):
    if t == 'unsat':
        return 'List (BitVec 64)'
    if isinstance(t, tuple):
        return ' × '.join((f'({lean_ty(x)})' if isinstance(x, tuple) else lean_ty(x)) for x in t)
    return _lean_ty_g18(t)


def read_unsat_consts(src):
    """`pub const LIMB_BITS: usize = 62;` and `pub const MASK: u64 = u64::MAX >> (64 - Self::LIMB_BITS);` of `impl UnsatInt`"""
    UNSAT_CONSTS.clear()
    m = re.search(r'\bconst\s+LIMB_BITS\s*:\s*usize\s*=\s*(\d+)\s*;', src)
    if m and 0 < int(m.group(1)) < 64:
        UNSAT_CONSTS['LIMB_BITS'] = int(m.group(1))
        m2 = re.search(r'\bconst\s+MASK\s*:\s*u64\s*=\s*u64::MAX\s*>>\s*\(\s*(\d+)\s*-\s*Self::LIMB_BITS\s*\)\s*;', src)
        if m2 and 0 <= int(m2.group(1)) - int(m.group(1)) < 64:
            UNSAT_CONSTS['MASK'] = f'((~~~0#64) >>> {int(m2.group(1)) - int(m.group(1))})'
    if re.search(r'\bconst\s+ZERO\s*:\s*Self\s*=\s*Self\(\s*\[\s*0\s*;\s*LIMBS\s*\]\s*\)\s*;', src):
        UNSAT_CONSTS['ZERO'] = True


_ex_g18, _lookup_g18, _const_g18 = Gen.ex, Gen.lookup, Gen.const


def _unsat_path(p):
    return len(p) == 2 and p[0] in ('Self', 'UnsatInt') and p[1] in ('LIMB_BITS', 'MASK', 'ZERO')


def _g18_const(self, e):
    if OPTS.get('unsat') and e[0] == 'path' and _unsat_path(e[1]) and e[1][1] == 'LIMB_BITS' and (e[1][0] != 'Self' or self.self_ty == 'UnsatInt'):
        return UNSAT_CONSTS.get('LIMB_BITS')
    return _const_g18(self, e)


def _g18_ex(self, e, env, want=None):
    if not OPTS.get('unsat'):
        return _ex_g18(self, e, env, want)
    k = e[0]
    if k == 'path' and _unsat_path(e[1]) and (e[1][0] != 'Self' or self.self_ty == 'UnsatInt'):
        if len(e) > 2 and e[2] and e[2] != [self.generic]:
            raise Unsupported('turbofish ' + '::'.join(e[1]))
        c = e[1][1]
        if c not in UNSAT_CONSTS:
            raise Unsupported(f'constant UnsatInt::{c} changed in the source')
        if c == 'MASK':
            return UNSAT_CONSTS['MASK'], 64
        if c == 'LIMB_BITS':
            return (str(UNSAT_CONSTS[c]), 'nat') if want == 'nat' else (f'{UNSAT_CONSTS[c]}#{want if isinstance(want, int) else 64}', want if isinstance(want, int) else 64)
        if not self.generic or env.get(self.generic, (None, None))[1] != 'nat':
            raise Unsupported('UnsatInt::ZERO outside a generic unit')
        return f'(List.replicate {env[self.generic][0]} 0#64)', 'unsat'
    if k == 'field' and e[2] == 0:
        t, ty = self.ex(e[1], env)
        if ty == 'unsat':
            return t, 'words'          # `x.0`: the `[u64; LIMBS]` inside, the same list (`x.0[i]` is a `u64`)
    if k == 'nfield' and e[1] == ('var', 'self') and self.self_ty == 'SafeGcdInverter' and 'self' in env:
        names = [n for n, _ in INVERTER_FIELDS]
        if e[2] not in names:
            raise Unsupported('field ' + e[2] + ' of the inverter')
        return f'{env["self"][0]}{proj(names.index(e[2]), len(names))}', INVERTER_FIELDS[names.index(e[2])][1]
    if k == 'method':
        r, tr = self.ex(e[2], env)
        if tr == 'unsat':
            return self.call(e[1], [e[2]] + e[3], env, 'unsat')
    if k == 'call' and len(e[1]) == 2 and e[1][0] == 'UnsatInt':
        return self.call(e[1][1], e[2], env, 'unsat')
    if k == 'ifexpr' and want is None:
        # `let (a, b, c) = if c { (x, y, z) } else { (x, 0, 0) };`: the untyped literals of one branch take the types of the other
        try:
            return _ex_g18(self, e, env, want)
        except Unsupported as ex:
            if 'untyped literal' not in str(ex):
                raise
        for stmts, fin in e[2:]:
            if stmts:
                continue
            try:
                _, ty = self.ex(fin, dict(env))
            except Unsupported:
                continue
            return _ex_g18(self, e, env, ty)
        raise Unsupported('untyped literal')
    return _ex_g18(self, e, env, want)


def _g18_lookup(self, name, where):
    if where == 'unsat':
        if self.self_ty == 'UnsatInt':
            return (self.ns, self.sigs[name]) if name in self.sigs else (None, None)
        c = self.ext.get('unsat')
        return (c[0], c[1].get(name)) if c else (None, None)
    return _lookup_g18(self, name, where)


_call_g18 = Gen.call


def _g18_call(self, name, args, env, where='self'):
    ns, sig = self.lookup(name, where)
    if (OPTS.get('unsat') and sig is not None and ns in GENERIC_NS and self.generic and GENERIC_NS[ns] != self.generic
            and ns != self.ns):
        # the caller names its limb count differently (`UNSAT_LIMBS` in `impl SafeGcdInverter`): the same `Nat` argument
        old = GENERIC_NS[ns]
        GENERIC_NS[ns] = self.generic
        try:
            return _call_g18(self, name, args, env, where)
        finally:
            GENERIC_NS[ns] = old
    return _call_g18(self, name, args, env, where)


Gen.ex, Gen.lookup, Gen.const, Gen.call = _g18_ex, _g18_lookup, _g18_const, _g18_call


def _occurs(x, name):
    """does the variable `name` occur anywhere in the AST `x` (as a `('var', name)` node or as the target of a statement)"""
    if isinstance(x, (list, tuple)):
        return any(_occurs(y, name) for y in x)
    return x == name


def localize_declared(stmts):
    """(G18, `unsat` units) `let mut m;` at the top level of a function whose every use lies inside ONE `while` body, where its
    first occurrence is as a target of a destructuring assignment `(a, m) = e;` and nothing assigns it again: a scratch variable
    of that body.  The assignment is read as `let (a_new, m) = e; a = a_new;` (the same values in the same order) and the
    declaration is dropped, so `m` is a local of the body, not loop state."""
    stmts = list(stmts)
    for st in [x for x in stmts if x[0] == 'declare']:
        name = st[1]
        users = [x for x in stmts if x is not st and _occurs(x, name)]
        if len(users) != 1 or users[0][0] != 'while' or _occurs(users[0][1], name):
            continue
        w = users[0]
        body = list(w[2])
        j = [k for k, x in enumerate(body) if _occurs(x, name)][0]
        x = body[j]
        if x[0] != 'assign_tuple' or _occurs(x[2], name) or any(lv[0] != 'var' for lv in x[1]):
            continue
        if [lv[1] for lv in x[1]].count(name) != 1 or any(name in assigned_vars([y]) for y in body[j + 1:]):
            continue
        names, after = [], []
        for lv in x[1]:
            if lv[1] in (name, '_'):
                names.append(lv[1])
                continue
            tmp = lv[1] + '_new'
            if _occurs(stmts, tmp):
                names = None
                break
            names.append(tmp)
            after.append(('assign', lv[1], '=', ('var', tmp)))
        if names is None:
            continue
        body[j:j + 1] = [('lettuple', names, x[2])] + after
        neww = (w[0], w[1], body) + tuple(w[3:])
        stmts = [neww if y is w else y for y in stmts if y is not st]
    return stmts


_run_g18 = Gen.run


def _g18_run(self, stmts, env, lines, declared=None):
    if OPTS.get('unsat') and declared is None and any(x[0] == 'declare' for x in stmts):
        stmts = localize_declared(stmts)
    return _run_g18(self, stmts, env, lines, declared)


Gen.run = _g18_run


def impl_blocks(src, self_ty):
    """the bodies of all inherent impl blocks `impl[<..>] Ty[<..>] {` of a file, concatenated"""
    out = []
    for m in re.finditer(r'\bimpl\s*(?:<[^>{]*>)?\s*' + self_ty + r'\s*(?:<[^>{]*>)?\s*\{', src):
        depth, j = 1, m.end()
        while depth and j < len(src):
            depth += {'{': 1, '}': -1}.get(src[j], 0)
            j += 1
        out.append(src[m.end():j - 1])
    if not out:
        raise Unsupported('impl block of ' + self_ty + ' not found')
    return '\n'.join(out)


def translate_file(path, ns, self_ty, want=None, private=False, ext=None, cut=None):
    if isinstance(path, list):
        # a unit gathered from several files: the inherent impl blocks of `self_ty` in each of them
        src = '\n'.join((impl_blocks(open(f).read(), self_ty) if self_ty else open(f).read()) for f in path)
    else:
        src = open(path).read()
        if (ext or {}).get('generic_alias'):
            # the file names its const generic `L` (`fn f<const L: usize>(u: &Uint<L>, ..)`): read as `LIMBS` (unit option `generic_alias`)
            src = re.sub(r'\b' + ext['generic_alias'] + r'\b', 'LIMBS', src)
        if cut and cut in src:
            src = src[:src.index(cut)]      # only the free functions in front of the first `impl` block (unit option `cut`)
        for mod in (ext or {}).get('skip_mods', []):
            # a nested module that only re-exports the functions of the file (verification hooks): not part of the unit
            mm = re.search(r'\bmod\s+' + mod + r'\s*\{', src)
            if mm:
                src = src[:mm.start()] + src[_balanced_end(src, mm.end()):]
        if (ext or {}).get('defer_lets'):
            TYPE_ALIASES.clear()
            for mm in re.finditer(r'^\s*(?:pub(?:\([a-z]+\))?\s+)?type\s+(\w+)\s*=\s*([^\n]+);[ \t]*$', src, re.M):
                TYPE_ALIASES[mm.group(1)] = mm.group(2).strip()
        if self_ty:
            m = re.search(r'impl\s+' + self_ty + r'\s*\{', src)
            if not m:
                raise Unsupported('impl block of ' + self_ty + ' not found')
            depth, j = 1, m.end()
            while depth and j < len(src):
                depth += {'{': 1, '}': -1}.get(src[j], 0)
                j += 1
            src = src[m.end():j - 1]
    fns = []
    for attrs, name, params, ret, body in find_functions(src, private):
        if 'target_pointer_width = "32"' in attrs:
            continue
        if want and name not in want:
            continue
        fns.append((name, params, ret, body))
    sigs, plist, outs = {}, {}, {}
    for name, params, ret, body in fns:
        try:
            ps = parse_params(params, self_ty)
            ptys = [ty_of(t, self_ty) if n != 'self' else ('choice' if self_ty == 'ConstChoice' else ty_of('Self', self_ty)) for n, t in ps]
            mutp = [n for n, t in ps if n != 'self' and t.startswith('mut ')] if private == 'any' else []   # G10's convention (MulRows unit)
            if not ret:
                # no return type: the function RETURNS the final values of its `&mut` slice parameters (in parameter order)
                if not mutp:
                    raise Unsupported('no return type')
                rty = tuple('uint' for _ in mutp) if len(mutp) > 1 else 'uint'
                outs[name] = mutp
                MUTOUT[(ns, name)] = [k for k, (n, t) in enumerate(ps) if n in mutp]
            elif mutp:
                raise Unsupported('`&mut` parameter and a return value')
            else:
                rty = ty_of(ret, self_ty)
            if any(t is None for t in ptys) or rty is None:
                raise Unsupported('type')
            mut = [k for k, (n, t) in enumerate(ps) if re.match(r'mut\s+\[', t)] if OPTS.get('slices') else []   # G11's convention (units with `slices`)
            if mut:
                MUTP[(ns, name)] = mut
                rty = tuple([ptys[k] for k in mut] + [rty])
            sigs[name] = (ptys, rty); plist[name] = ps
        except (Unsupported, ValueError, IndexError, KeyError, TypeError):
            pass
    out, failed = {}, {}
    g = Gen(sigs, self_ty, ns, ext)
    for name, params, ret, body in fns:
        if name not in sigs:
            failed[name] = 'signature outside the supported subset'
            continue
        ptys, rty = sigs[name]
        try:
            env = {}
            binders = []
            g.reset(name)
            g.mutparams = [plist[name][k][0] for k in MUTP.get((ns, name), [])]
            if g.generic:
                env[g.generic] = (g.generic, 'nat')
                binders.append(f'({g.generic} : Nat)')
            GENERIC2_FNS.discard((ns, name))
            if OPTS.get('generic2') and re.search(r'\b' + OPTS['generic2'] + r'\b', params + ' ' + ret):
                # a second const generic (`uint_mul_limbs<const LIMBS: usize, const RHS_LIMBS: usize>`): a second `Nat` argument
                env[OPTS['generic2']] = (OPTS['generic2'], 'nat')
                binders.append(f'({OPTS["generic2"]} : Nat)')
                GENERIC2_FNS.add((ns, name))
            for (n, _), t in zip(plist[name], ptys):
                ln = 'self_' if n == 'self' else n
                env[n] = (ln, t)
                binders.append(f'({ln} : {lean_ty(t)})')
            g.guards = []
            lines = g.body(body, env, rty, outs.get(name))
            lines = [f'-- the source panics if: {c}' for c in g.guards] + lines
            out[name] = ''.join(a + '\n\n' for a in g.aux) + (f'@[gen_defs] def {name} ' + ''.join(b + ' ' for b in binders) + f': {lean_ty(rty)} :=\n  ' + join_lines('\n  ', lines))
        except Unsupported as ex:
            failed[name] = str(ex)
            sigs.pop(name, None)   # callers of an untranslated function are untranslated too (detected at call)
        except (KeyError, IndexError, TypeError, ValueError, AttributeError, RecursionError) as ex:
            # a source shape nobody anticipated: never an exception, the function is simply not translated
            failed[name] = 'translator error: ' + repr(ex)
            sigs.pop(name, None)
    # a caller translated before its (later, failing) callee was reached: untranslated too
    changed = True
    while changed:
        changed = False
        for name in list(out):
            for f in failed:
                if re.search(re.escape(f'{ns}.{f}') + r'(?![\w.])', out[name]):
                    failed[name] = 'call to untranslated ' + f
                    del out[name]
                    sigs.pop(name, None)
                    changed = True
                    break
    return [n for n, _, _, _ in fns], out, failed, sigs


# ---- (G19) `impl_limb_convert!` expanded by macro substitution; `UnsatInt::{from_uint, to_uint}` ----------------------------

_impl_blocks_g19 = impl_blocks
MIN_SHAPE = re.compile(r'const\s+fn\s+min\s*\(\s*a\s*:\s*usize\s*,\s*b\s*:\s*usize\s*\)\s*->\s*usize\s*\{\s*if\s+a\s*>\s*b\s*\{\s*b\s*\}\s*else\s*\{\s*a\s*\}\s*\}')


def read_limb_convert_macro():
    """the macro `impl_limb_convert!` of src/modular/safegcd/macros.rs: (parameter names with kinds, body text without the nested
    `const fn min`, whose text must be the expected `if a > b { b } else { a }`) — read on every run"""
    try:
        text = open(os.path.join(REPO, 'src/modular/safegcd/macros.rs')).read()
    except OSError:
        raise Unsupported('src/modular/safegcd/macros.rs not found')
    text = re.sub(r'//[^\n]*', '', text)
    m = re.search(r'macro_rules!\s*impl_limb_convert\s*\{\s*\(([^)]*)\)\s*=>\s*\{\{', text)
    if not m:
        raise Unsupported('macro impl_limb_convert! not found / another shape')
    params = re.findall(r'\$(\w+)\s*:\s*(\w+)', m.group(1))
    end = _balanced_end(text, m.end())
    body = text[m.end():end - 1]
    mm = MIN_SHAPE.search(body)
    if not mm:
        raise Unsupported('the nested `const fn min` of impl_limb_convert! changed')
    body = body[:mm.start()] + body[mm.end():]
    if 'fn ' in body:
        raise Unsupported('impl_limb_convert!: nested items')
    return params, body


def expand_limb_convert(src):
    """every `impl_limb_convert!(a, b, c, d, e, f);` of `src` replaced by the macro body with `$name` substituted (an `expr`
    argument in parentheses, as the macro expander does; a `ty` argument as it stands; `<T>::X` is `T::X`)"""
    while True:
        m = re.search(r'\bimpl_limb_convert\s*!\s*\(', src)
        if not m:
            return src
        params, body = read_limb_convert_macro()
        end = _balanced_end(src, m.end(), '(', ')')
        args = [a.strip() for a in split_top(src[m.end():end - 1])]
        if len(args) != len(params):
            raise Unsupported('impl_limb_convert!: argument count')
        for (n, kind), a in zip(params, args):
            a = re.sub(r'^&\s*', '', a)
            simple = re.match(r'[\w.]+(\(\))?$', a) or re.match(r'\d+$', a)
            body = re.sub(r'\$' + n + r'\b', a if (kind == 'ty' or simple) else f'({a})', body)
        body = re.sub(r'<\s*(\w+)\s*>\s*::', r'\1::', body)
        j = end
        while j < len(src) and src[j] in ' \t\n':
            j += 1
        if j < len(src) and src[j] == ';':
            j += 1
        src = src[:m.start()] + body + src[j:]


def impl_blocks(src, self_ty):
    out = _impl_blocks_g19(src, self_ty)
    if OPTS.get('limb_convert') and self_ty == 'UnsatInt':
        out = expand_limb_convert(out)
        # `fn from_uint<const SAT_LIMBS: usize>(..)`: the second const generic is the unit's `generic2` (an explicit `Nat` argument)
        out = re.sub(r'(\bfn\s+\w+)\s*<\s*const\s+SAT_LIMBS\s*:\s*usize\s*>', r'\1', out)
    return out


_ex_g19, _is_nat_g19, _run_g19 = Gen.ex, Gen.is_nat, Gen.run


def _g19_is_nat(self, e, env):
    if OPTS.get('limb_convert'):
        if e[0] == 'bin' and e[1] in ('%', '/'):
            return self.is_nat(e[2], env) or self.is_nat(e[3], env)
        if e[0] == 'call' and e[1] == ['min']:
            return True
    return _is_nat_g19(self, e, env)


def _g19_nat(self, e, env):
    t, ty = self.ex(e, env, 'nat')
    if ty != 'nat':
        raise Unsupported('index arithmetic: ' + str(ty))
    return t


def _g19_ex(self, e, env, want=None):
    if not OPTS.get('limb_convert'):
        return _ex_g19(self, e, env, want)
    k = e[0]
    if k == 'as' and e[2] == 'usize' and e[1][0] == 'path' and e[1][1] in (['Word', 'BITS'], ['u64', 'BITS'], ['Limb', 'BITS']):
        return ('64', 'nat') if want in ('nat', None) else _ex_g19(self, e, env, want)     # `Word::BITS as usize` (64-bit configuration)
    if k == 'bin' and e[1] in ('%', '/') and (want == 'nat' or self.is_nat(e, env)):
        return f'({_g19_nat(self, e[2], env)} {e[1]} {_g19_nat(self, e[3], env)})', 'nat'
    if k == 'call' and e[1] == ['min'] and len(e[2]) == 2:
        # the nested `const fn min(a, b) { if a > b { b } else { a } }` of the macro (its text is checked on every run)
        a, b = _g19_nat(self, e[2][0], env), _g19_nat(self, e[2][1], env)
        return f'(if {a} > {b} then {b} else {a})', 'nat'
    if k == 'ifexpr' and want == 'nat' and len(e) == 4 and not e[2][0] and not e[3][0]:
        return f'(if {self.cond_prop(e[1], env)} then {_g19_nat(self, e[2][1], env)} else {_g19_nat(self, e[3][1], env)})', 'nat'
    if k == 'arrayrep':
        el = e[1][1] if e[1][0] == 'as' and e[1][2] in ('Word', 'u64') else e[1]
        if el[0] == 'lit' and not el[2]:
            n, tn = self.ex(e[2], env, 'nat')
            if tn == 'nat':
                return f'(List.replicate {atom(n)} {el[1]}#64)', 'words'      # `[0; LIMBS]` / `[0 as Word; SAT_LIMBS]`
    if k == 'call' and e[1] == ['Self'] and self.self_ty == 'UnsatInt' and len(e[2]) == 1:
        t, ty = self.ex(e[2][0], env)
        if ty == 'words':
            return t, 'unsat'
    if k == 'call' and e[1] == ['Uint', 'from_words'] and len(e[2]) == 1:
        t, ty = self.ex(e[2][0], env)
        if ty == 'words':
            return t, 'uint'
    if k == 'method' and not e[3] and e[1] in ('as_words', 'len'):
        r, tr = self.ex(e[2], env)
        if e[1] == 'as_words' and tr == 'uint':
            return r, 'words'
        if e[1] == 'len' and tr == 'words':
            return f'{atom(r)}.length', 'nat'
    return _ex_g19(self, e, env, want)


def _g19_run(self, stmts, env, lines, declared=None):
    if OPTS.get('limb_convert'):
        out = []
        for st in stmts:
            if st[0] == 'assign_idx' and st[1] in env and env[st[1]][1] == 'words':
                # flush what precedes, then `arr[i] op= e` on a list of plain words
                _run_g19(self, out, env, lines, declared)
                out = []
                _, name, idx, op, rhs = st
                e = rhs if op == '=' else ('bin', op[:-1], ('index', ('var', name), idx), rhs)
                ix = _g19_nat(self, idx, env)
                t, ty = self.ex(e, env, 64)
                if ty != 64:
                    raise Unsupported('array element of type ' + str(ty))
                self.bind(name, f'{atom(env[name][0])}.set {atom(ix)} {atom(t)}', 'words', env, lines)
            else:
                out.append(st)
        return _run_g19(self, out, env, lines, declared)
    return _run_g19(self, stmts, env, lines, declared)


Gen.ex, Gen.is_nat, Gen.run = _g19_ex, _g19_is_nat, _g19_run


_emit_loop_up_g19, _loop_up_text_g19 = Gen.emit_loop_up, Gen.loop_up_text


def _g19_emit_loop_up(self, cond, body, env, lines):
    """(G19) an eighth `while` form: `while bits < total { ..; bits += <Nat expression of the body's locals>; }` — the fourth form
    with a DATA-DEPENDENT step: the same auxiliary definition by recursion on a fuel argument (BOUND - start, which suffices when
    every step is >= 1: a proof obligation of the bridge), every round re-testing `bits < total`."""
    i = cond[2][1]
    if (OPTS.get('limb_convert') and body and body[-1][0] == 'assign' and body[-1][1] == i and body[-1][2] == '+='
            and body[-1][3][0] != 'lit'):
        if i in free_vars(cond[3], []):
            raise Unsupported('loop bound')
        self.g19_step = body[-1][3]
        try:
            r = _emit_loop_up_g19(self, cond, list(body[:-1]) + [('assign', i, '+=', ('lit', 1, None))], env, lines)
        finally:
            self.g19_step = None
        env.pop(i, None)        # the counter after the loop is not tracked
        return r
    return _emit_loop_up_g19(self, cond, body, env, lines)


def _g19_loop_up_text(self, i, step, bound_e, rest, state, styp, captured, env):
    if getattr(self, 'g19_step', None) is None:
        return _loop_up_text_g19(self, i, step, bound_e, rest, state, styp, captured, env)
    step_e, self.g19_step = self.g19_step, None
    try:
        self.nloop += 1
        aux = f'{self.fname}_loop{self.nloop}'
        env2 = {}
        for v in captured:
            env2[v] = (self.fresh('self_' if v == 'self' else v, env2), env[v][1])
        for s, ty in zip(state, styp):
            env2[s] = (self.fresh(s, env2), ty)
        nvar = self.fresh('n', env2)
        env2['\0n'] = (nvar, 'nat')
        env2[i] = (self.fresh(i, env2), 'nat')
        ivar = env2[i][0]
        outer, declared = set(env2), set()
        pat = ', '.join(env2[s][0] for s in state)
        tup = f'({pat})' if len(state) > 1 else pat
        capb = ''.join(f' ({env2[v][0]} : {lean_ty(env2[v][1])})' for v in captured)
        capa = ''.join(f' {env2[v][0]}' for v in captured)
        bound, tb = self.ex(bound_e, env2, 'nat')
        if tb != 'nat':
            raise Unsupported('loop bound of type ' + str(tb))
        lines2 = []
        self.run(rest, env2, lines2, declared)
        if declared & outer:
            raise Unsupported('loop body shadows an outer variable')
        if any(env2[s][1] != ty for s, ty in zip(state, styp)):
            raise Unsupported('loop state changes type')
        stept = _g19_nat(self, step_e, env2)
        res = ' × '.join(lean_ty(t) for t in styp)
        text = (f'@[gen_defs] def {aux}{capb} : Nat → Nat → ' + ' → '.join(lean_ty(t) for t in styp) + f' → {res}\n'
                + f'  | 0, {ivar}, {pat} => {tup}\n'
                + f'  | {nvar} + 1, {ivar}, {pat} =>\n    if {ivar} < {bound} then\n      ' + join_lines('\n      ', lines2)
                + f'\n      {self.ns}.{aux}{capa} {nvar} ({ivar} + {stept}) ' + ' '.join(env2[s][0] for s in state)
                + f'\n    else {tup}')
        bound_out, tbo = self.ex(bound_e, env, 'nat')
        return text, aux, capa, bound_out
    finally:
        self.g19_step = step_e


Gen.emit_loop_up, Gen.loop_up_text = _g19_emit_loop_up, _g19_loop_up_text


# ---- (G19) `SafeGcdInverter::{new, inv}`: calls into the conversion unit (two const generics), struct literal, ONE / MINUS_ONE ----

_ty_of_g19, _lookup_g19, _call_g19, _ex_g19b = ty_of, Gen.lookup, Gen.call, Gen.ex
_read_unsat_consts_g19 = read_unsat_consts


def read_unsat_consts(src):
    """also `MINUS_ONE = Self([Self::MASK; LIMBS])` and `ONE = { let mut ret = Self::ZERO; ret.0[0] = 1; ret }` (read on every run)"""
    _read_unsat_consts_g19(src)
    if 'MASK' in UNSAT_CONSTS and re.search(r'\bconst\s+MINUS_ONE\s*:\s*Self\s*=\s*Self\(\s*\[\s*Self::MASK\s*;\s*LIMBS\s*\]\s*\)\s*;', src):
        UNSAT_CONSTS['MINUS_ONE'] = '(List.replicate {L} ' + UNSAT_CONSTS['MASK'] + ')'
    m = re.search(r'\bconst\s+ONE\s*:\s*Self\s*=\s*\{\s*let\s+mut\s+(\w+)\s*=\s*Self::ZERO\s*;\s*(\w+)\.0\[(\d+)\]\s*=\s*(\d+)\s*;\s*(\w+)\s*\}\s*;', src)
    if 'ZERO' in UNSAT_CONSTS and m and m.group(1) == m.group(2) == m.group(5):
        UNSAT_CONSTS['ONE'] = '((List.replicate {L} 0#64).set ' + m.group(3) + ' ' + m.group(4) + '#64)'


def ty_of(t, self_ty):
    t0 = t.strip()
    if OPTS.get('inverter_api') and OPTS.get('generic2') and re.match(r'Odd\s*<\s*Uint\s*<\s*' + OPTS['generic2'] + r'\s*>\s*>$', t0):
        return 'odduint'
    return _ty_of_g19(t, self_ty)


def _g19_lookup(self, name, where):
    if where == 'inverter':
        c = (self.ext.get('g19') or {}).get('inverter')
        return (c[0], c[1].get(name)) if c else (None, None)
    ns, sig = _lookup_g19(self, name, where)
    if sig is None and where == 'unsat' and OPTS.get('inverter_api'):
        c = (self.ext.get('g19') or {}).get('convert')
        if c and name in c[1]:
            return c[0], c[1][name]
    return ns, sig


def _g19_call(self, name, args, env, where='self'):
    ns, sig = self.lookup(name, where)
    g2 = OPTS.get('generic2')
    if OPTS.get('inverter_api') and sig is not None and (ns, name) in GENERIC2_FNS and g2 and env.get(g2, (None, None))[1] == 'nat':
        # a callee with the same two const generics (`UnsatInt::from_uint::<SAT_LIMBS>` from `impl SafeGcdInverter<SAT_LIMBS,
        # UNSAT_LIMBS>`): both limb counts are passed on
        GENERIC2_FNS.discard((ns, name))
        try:
            t, ty = _call_g19(self, name, args, env, where)
        finally:
            GENERIC2_FNS.add((ns, name))
        head = f'({ns}.{name} {env[self.generic][0]} '
        if not t.startswith(head):
            raise Unsupported('call of ' + name)
        return head + env[g2][0] + ' ' + t[len(head):], ty
    return _call_g19(self, name, args, env, where)


def _g19_ex2(self, e, env, want=None):
    if not OPTS.get('inverter_api'):
        return _ex_g19b(self, e, env, want)
    k = e[0]
    if k == 'struct' and e[1] == 'Self' and self.self_ty == 'SafeGcdInverter' and INVERTER_FIELDS:
        given = dict(e[2])
        if len(given) != len(e[2]) or set(given) != {f for f, _ in INVERTER_FIELDS}:
            raise Unsupported('struct literal fields')
        parts = []
        for f, fty in INVERTER_FIELDS:
            t, ty = self.ex(given[f], env, fty)
            if ty != fty:
                raise Unsupported(f'field type {ty} for {fty}')
            parts.append(t)
        return '(' + ', '.join(parts) + ')', tuple(t for _, t in INVERTER_FIELDS)
    if k == 'path' and len(e[1]) == 2 and e[1][0] == 'UnsatInt' and e[1][1] in ('ONE', 'MINUS_ONE'):
        if e[1][1] not in UNSAT_CONSTS or not self.generic or env.get(self.generic, (None, None))[1] != 'nat':
            raise Unsupported(f'constant UnsatInt::{e[1][1]} changed in the source')
        return UNSAT_CONSTS[e[1][1]].replace('{L}', env[self.generic][0]), 'unsat'
    if k == 'method' and e[2] == ('var', 'self') and self.self_ty == 'SafeGcdInverter' and self.lookup(e[1], 'inverter')[1] is not None:
        return self.call(e[1], [e[2]] + e[3], env, 'inverter')
    if k == 'field' and e[2] == 0:
        t, ty = self.ex(e[1], env)
        if ty == 'odduint':
            return t, 'uint'
    return _ex_g19b(self, e, env, want)


Gen.lookup, Gen.call, Gen.ex = _g19_lookup, _g19_call, _g19_ex2


DIV_LIMB = 'src/uint/div_limb.rs'
FILES = [
    # (generated file, imports, units); a unit: rust file, lean namespace, impl type or None, description, options
    ('Prim.lean', ['CB.Gen.Attr'], [
        dict(key='prim', rel='src/primitives.rs', ns='CB.Gen.Prim', self_ty=None, desc='word primitives'),
        dict(key='choice', rel='src/const_choice.rs', ns='CB.Gen.Choice', self_ty='ConstChoice',
             desc='ConstChoice: masks, comparison predicates, selects'),
    ]),
    ('DivLimb.lean', ['CB.Gen.Prim', None, 'set_option linter.unusedVariables false'], [
        dict(key='div_limb', rel=DIV_LIMB, ns='CB.Gen.DivLimb', self_ty=None,
             desc='word-level division: reciprocal, short_div, div2by1, div3by2 (64-bit configuration)',
             want=['reciprocal', 'lt', 'select', 'short_div', 'div2by1', 'div3by2'], private=True,
             struct='Reciprocal', use=['prim']),
        dict(key='reciprocal', rel=DIV_LIMB, ns='CB.Gen.DivLimb.Reciprocal', self_ty='Reciprocal',
             desc='impl Reciprocal', want=['new', 'default'], use=['div_limb', 'prim']),
    ]),
    # the carry chains over the limbs of a `Uint<LIMBS>`: a value is the list of its limbs, `LIMBS : Nat` an explicit argument
    ('Chains.lean', ['CB.Gen.Prim', None, 'set_option linter.unusedVariables false'], [
        dict(key='limb', rel=['src/limb/add.rs', 'src/limb/sub.rs', 'src/limb/mul.rs', 'src/limb/cmp.rs'],
             ns='CB.Gen.Chains.Limb', self_ty='Limb', desc='impl Limb: thin wrappers over the word primitives',
             want=['adc', 'sbb', 'mac', 'is_nonzero'], use=['prim']),
        dict(key='uint', rel=['src/uint/add.rs', 'src/uint/sub.rs', 'src/uint/neg.rs', 'src/uint/cmp.rs'],
             ns='CB.Gen.Chains.Uint', self_ty='Uint', generic='LIMBS',
             desc='impl<const LIMBS: usize> Uint<LIMBS>: add / sub / neg / compare loops over the limbs',
             want=['adc', 'wrapping_add', 'sbb', 'wrapping_sub', 'carrying_neg', 'wrapping_neg', 'is_nonzero', 'eq', 'lt', 'gt', 'lte']),
    ]),
    # the word-level helpers of the encoders / decoders
    ('Encoding.lean', ['CB.Gen.Prim', None, 'set_option linter.unusedVariables false'], [
        dict(key='hex', rel='src/uint/encoding.rs', ns='CB.Gen.Encoding', self_ty=None,
             desc='the constant-time hex decoder: decode_nibble (signed 16-bit arithmetic), decode_hex_byte',
             want=['decode_nibble', 'decode_hex_byte'], private=True),
        dict(key='uint_from', rel=['src/uint/from.rs'], ns='CB.Gen.Encoding.Uint', self_ty='Uint', generic='LIMBS',
             desc='impl<const LIMBS: usize> Uint<LIMBS>: the conversions from a primitive (64-bit configuration)',
             want=['from_u8', 'from_u16', 'from_u32', 'from_u64', 'from_u128', 'from_word', 'from_wide_word']),
    ]),
    # the multiplication rows: `impl Limb` of src/limb/mul.rs and the slice functions of src/uint/mul.rs (a slice = the list of
    # its limbs; a function with `&mut [Limb]` parameters returns their final values)
    ('MulRows.lean', ['CB.Gen.Chains', None, 'set_option linter.unusedVariables false'], [
        dict(key='limb_mul', rel=['src/limb/mul.rs'], ns='CB.Gen.MulRows.Limb', self_ty='Limb',
             desc='impl Limb: wrapping / saturating / wide multiplication', want=['saturating_mul', 'wrapping_mul', 'mul_wide'],
             use=['prim']),
        dict(key='limb_sq', rel=['src/limb/add.rs', 'src/limb/shr.rs'], ns='CB.Gen.MulRows.LimbSq', self_ty='Limb',
             desc='impl Limb: the two further methods schoolbook_squaring calls', want=['overflowing_add', 'shr'], use=['prim']),
        dict(key='uint_mul', rel='src/uint/mul.rs', ns='CB.Gen.MulRows', self_ty=None, private='any',
             desc='schoolbook multiplication over limb slices: nested `while` loops, `lo`/`hi` addressed by an index test',
             want=['schoolbook_multiplication', 'schoolbook_squaring'], limb_more=['limb_mul', 'limb_sq']),
        dict(key='uint_mul_wrap', rel='src/uint/mul.rs', ns='CB.Gen.MulRows.Wrap', self_ty=None, generic='LIMBS', generic2='RHS_LIMBS',
             free_generic=True, use=['uint_mul'],
             desc='the const-generic wrappers: zeroed `Uint`s handed to the slice functions, the written-back `(lo, hi)` returned',
             want=['uint_mul_limbs', 'uint_square_limbs']),
        dict(key='kara_rows', rel='src/uint/mul/karatsuba.rs', ns='CB.Gen.MulRows.Karatsuba', self_ty=None, slices=True,
             nonconst=True, panic_guards=True, private=True,
             desc='adc_mul_limbs (a non-`const` fn): the schoolbook product ADDED to a limb slice, the carry returned',
             want=['adc_mul_limbs']),
    ]),
    # the modular add / sub / neg layer (C07): mask helpers, `add_mod` .. `neg_mod_special`, the Montgomery-form forwarders
    ('Modular.lean', ['CB.Gen.Chains', None, 'set_option linter.unusedVariables false'], [
        dict(key='limb_mod', rel=['src/limb/bit_and.rs', 'src/limb/bit_or.rs', 'src/limb/bit_not.rs', 'src/limb/neg.rs', 'src/limb/shl.rs'],
             ns='CB.Gen.Modular.Limb', self_ty='Limb', desc='impl Limb: bitwise helpers of the modular layer',
             want=['bitand', 'bitor', 'not', 'wrapping_neg', 'shl1'], use=['prim']),
        dict(key='uint_mod', rel=['src/uint/bit_and.rs', 'src/uint/from.rs', 'src/uint/shl.rs', 'src/uint/add_mod.rs',
                                  'src/uint/sub_mod.rs', 'src/uint/neg_mod.rs'],
             ns='CB.Gen.Modular.Uint', self_ty='Uint', generic='LIMBS', skip_asserts=True, more_limb=['limb_mod'],
             desc='impl<const LIMBS: usize> Uint<LIMBS>: mask helpers, add_mod / sub_mod / neg_mod and their special-modulus forms',
             want=['bitand', 'bitand_limb', 'from_word', 'overflowing_shl1', 'add_mod', 'add_mod_special', 'double_mod',
                   'sub_mod', 'sub_mod_with_carry', 'sub_mod_special', 'neg_mod', 'neg_mod_special']),
        dict(key='form_mod', rel=['src/modular/add.rs', 'src/modular/sub.rs'], ns='CB.Gen.Modular.Form', self_ty=None,
             generic='LIMBS', free_generic=True, more_limb=['limb_mod'], more_uint=['uint_mod'],
             desc='Montgomery-form add / double / sub: forwarders to add_mod / double_mod / sub_mod',
             want=['add_montgomery_form', 'double_montgomery_form', 'sub_montgomery_form']),
        dict(key='redc', rel=['src/modular/reduction.rs'], ns='CB.Gen.Modular.Reduction', self_ty=None,
             generic='LIMBS', free_generic=True, slices=True, nat_loops=True, more_limb=['limb_mod'], more_uint=['uint_mod'],
             desc='Montgomery reduction: the nested loops of montgomery_reduction_inner, and montgomery_reduction',
             want=['montgomery_reduction_inner', 'montgomery_reduction']),
    ]),
    # the shift / bit-query layer (C05): word shifts and bit counts of a `Limb`, the limb loops of the `Uint` shifts
    ('Shifts.lean', ['CB.Gen.Prim', None, 'set_option linter.unusedVariables false'], [
        dict(key='limb_shift', rel=['src/limb/shl.rs', 'src/limb/shr.rs', 'src/limb/bits.rs', 'src/limb/bit_or.rs', 'src/limb/cmp.rs'],
             ns='CB.Gen.Shifts.Limb', self_ty='Limb', desc='impl Limb: word shifts, bit counts, bitor, select',
             want=['shl', 'shl1', 'shr', 'shr1', 'bits', 'leading_zeros', 'trailing_zeros', 'trailing_ones', 'bitor', 'select'], use=['prim']),
        dict(key='uint_shift', rel=['src/uint/cmp.rs', 'src/uint/shl.rs', 'src/uint/shr.rs'],
             ns='CB.Gen.Shifts.Uint', self_ty='Uint', generic='LIMBS', limb_more=['limb_shift'],
             desc='impl<const LIMBS: usize> Uint<LIMBS>: one-bit, sub-limb and variable-time shifts over the limbs',
             want=['select', 'overflowing_shl1', 'shl_limb', 'shr1', 'shr1_with_carry', 'overflowing_shl_vartime', 'overflowing_shr_vartime',
                   'shl_vartime', 'shr_vartime', 'wrapping_shl_vartime', 'wrapping_shr_vartime',
                   'overflowing_shl', 'overflowing_shr', 'shl', 'shr', 'wrapping_shl', 'wrapping_shr']),
        dict(key='uint_bits', rel='src/uint/bits.rs', ns='CB.Gen.Shifts.Bits', self_ty=None, limb_more=['limb_shift'],
             desc='the bit-query free functions over `&[Limb]` (a slice = the list of its limbs)',
             want=['leading_zeros', 'trailing_zeros', 'trailing_ones', 'bit'], cut='\nimpl<'),
    ]),
    # the sign layer of `Int<LIMBS>` (a newtype over `Uint<LIMBS>`: the same list of limbs) with the `Limb` / `Uint` helpers it calls
    ('IntSign.lean', ['CB.Gen.Chains', None, 'set_option linter.unusedVariables false'], [
        dict(key='limb_sel', rel=['src/limb/cmp.rs', 'src/limb/bit_xor.rs'], ns='CB.Gen.IntSign.Limb', self_ty='Limb',
             desc='impl Limb: select, bitxor', want=['select', 'bitxor'], use=['prim']),
        dict(key='uint_sel', rel=['src/uint/cmp.rs', 'src/uint/neg.rs', 'src/uint/bit_xor.rs'], ns='CB.Gen.IntSign.Uint',
             self_ty='Uint', generic='LIMBS', desc='impl<const LIMBS: usize> Uint<LIMBS>: select, wrapping_neg_if, bitxor',
             want=['select', 'wrapping_neg_if', 'bitxor'], limb_more=['limb_sel'], consts=['MAX', 'ONE']),
        dict(key='int', rel=['src/int/sign.rs', 'src/int/neg.rs', 'src/int/cmp.rs', 'src/int/add.rs', 'src/int.rs'],
             ns='CB.Gen.IntSign.Int', self_ty='Int', generic='LIMBS', private=True,
             desc='impl<const LIMBS: usize> Int<LIMBS>: sign, abs / sign decomposition, negation, comparison, checked addition',
             want=['most_significant_word', 'is_negative', 'is_positive', 'abs_sign', 'abs', 'new_from_abs_sign',
                   'wrapping_neg_if', 'select', 'is_nonzero', 'eq', 'lt', 'gt', 'invert_msb', 'is_min',
                   'overflowing_add', 'checked_add', 'wrapping_add', 'overflowing_neg', 'wrapping_neg', 'checked_neg'],
             uint_more=['uint_sel'], limb_more=['limb_sel'], consts=['MAX', 'MIN', 'SIGN_MASK', 'ONE']),
    ]),
    # the word-level core of safegcd (src/modular/safegcd.rs, 64-bit configuration)
    ('SafeGcd.lean', ['CB.Gen.Prim', None, 'set_option linter.unusedVariables false'], [
        dict(key='safegcd', rel='src/modular/safegcd.rs', ns='CB.Gen.SafeGcd', self_ty=None, private=True,
             desc='safegcd word level: iterations, inv_mod2_62, jump (the 62 batched divsteps on the low words; `loop`/`break` by fuel)',
             want=['iterations', 'inv_mod2_62', 'min', 'jump'], skip_mods=['verif'], defer_lets=True, fuel=dict(jump='64')),
    ]),
    # the remaining compare / bit-operation / bit-query functions (C06, C05): `cmp`, `cmp_vartime`, limb-wise `|` `^` `!`, the
    # variable-time slice queries (`break`, search loop, `if` expression) and the `impl Uint` forwarders of src/uint/bits.rs, `set_bit`
    ('CmpMore.lean', ['CB.Gen.Chains', 'CB.Gen.Shifts', None, 'set_option linter.unusedVariables false'], [
        dict(key='limb_cmp_more', rel=['src/limb/cmp.rs', 'src/limb/bit_xor.rs', 'src/limb/bit_or.rs', 'src/limb/bit_not.rs'],
             ns='CB.Gen.CmpMore.Limb', self_ty='Limb', desc='impl Limb: eq_vartime, the word operations ^ | !',
             want=['eq_vartime', 'bitxor', 'bitor', 'not'], use=['prim']),
        dict(key='bits_vartime', rel='src/uint/bits.rs', ns='CB.Gen.CmpMore.Bits', self_ty=None, limb_more=['limb_shift'],
             desc='the variable-time bit queries over `&[Limb]`: `if` expression, search loop, loops with `break`',
             want=['bit_vartime', 'bits_vartime', 'trailing_zeros_vartime', 'trailing_ones_vartime'], cut='\nimpl<', usize_nat=True),
        dict(key='uint_cmp_more', rel=['src/uint/cmp.rs', 'src/uint/bit_or.rs', 'src/uint/bit_xor.rs', 'src/uint/bit_not.rs', 'src/uint/bits.rs'],
             ns='CB.Gen.CmpMore.Uint', self_ty='Uint', generic='LIMBS', limb_more=['limb_cmp_more', 'limb_shift'],
             use=['uint_bits', 'bits_vartime'],
             desc='impl<const LIMBS: usize> Uint<LIMBS>: is_odd, cmp, cmp_vartime, limb-wise | ^ !, the bit-query forwarders, set_bit',
             want=['is_odd', 'cmp', 'cmp_vartime', 'bitor', 'wrapping_or', 'bitxor', 'wrapping_xor', 'not', 'bit', 'bit_vartime', 'bits',
                   'bits_vartime', 'leading_zeros', 'leading_zeros_vartime', 'trailing_zeros', 'trailing_zeros_vartime',
                   'trailing_ones', 'trailing_ones_vartime', 'set_bit']),
    ]),
    # division of a `Uint<L>` by a LIMB (C02): the count-down loops of `div2by1` over the normalised limbs (src/uint/div_limb.rs)
    # and the thin `impl Uint` wrappers of src/uint/div.rs
    ('DivLimbLoops.lean', ['CB.Gen.DivLimb', 'CB.Gen.Shifts', None, 'set_option linter.unusedVariables false'], [
        dict(key='div_limb_loops', rel=DIV_LIMB, ns='CB.Gen.DivLimbLoops', self_ty=None, generic='LIMBS', free_generic=True,
             generic_alias='L', use=['div_limb', 'prim'], uint_more=['uint_shift'], limb_more=['limb_shift'],
             desc='the limb loops of division by a limb: div_rem_limb_with_reciprocal, rem_limb_with_reciprocal, rem_limb_with_reciprocal_wide',
             want=['div_rem_limb_with_reciprocal', 'rem_limb_with_reciprocal', 'rem_limb_with_reciprocal_wide']),
        dict(key='uint_div_limb', rel=['src/uint/div.rs'], ns='CB.Gen.DivLimbLoops.Uint', self_ty='Uint', generic='LIMBS',
             use=['div_limb_loops', 'reciprocal'],
             desc='impl<const LIMBS: usize> Uint<LIMBS>: the thin wrappers div_rem_limb[_with_reciprocal], rem_limb[_with_reciprocal]',
             want=['div_rem_limb_with_reciprocal', 'div_rem_limb', 'rem_limb_with_reciprocal', 'rem_limb']),
        dict(key='uint_limb_vartime', rel=['src/uint/div.rs'], ns='CB.Gen.DivLimbLoops.Vartime', self_ty='Uint', generic='LIMBS',
             private=True, usize_param_nat=True,
             desc='impl<const LIMBS: usize> Uint<LIMBS>: the private sub-limb shifts of div_rem_vartime over the low `limbs_num` limbs',
             want=['shl_limb_vartime', 'shr_limb_vartime']),
        dict(key='mul_rem', rel=DIV_LIMB, ns='CB.Gen.DivLimbLoops.MulRem', self_ty=None, private=True,
             use=['div_limb_loops', 'reciprocal', 'prim'],
             desc='mul_rem: the double-width product reduced by rem_limb_with_reciprocal at limb count 2', want=['mul_rem']),
    ]),
    # (G18) the LIMB arithmetic of safegcd: `impl UnsatInt<LIMBS>` (lists of 62-bit words) and `fg`, `de` composed of it
    ('SafeGcdLimbs.lean', ['CB.Gen.SafeGcd', None, 'set_option linter.unusedVariables false'], [
        dict(key='unsat', rel=['src/modular/safegcd.rs'], ns='CB.Gen.SafeGcdLimbs.UnsatInt', self_ty='UnsatInt', generic='LIMBS',
             unsat=True, desc='impl<const LIMBS: usize> UnsatInt<LIMBS>: add, mul(i64), neg, shr, eq, is_negative, lowest, select',
             want=['add', 'mul', 'neg', 'shr', 'eq', 'is_negative', 'lowest', 'select', 'leading_zeros', 'bits']),
        dict(key='safegcd_limbs', rel='src/modular/safegcd.rs', ns='CB.Gen.SafeGcdLimbs', self_ty=None, generic='LIMBS',
             unsat=True, free_generic=True, skip_mods=['verif'], defer_lets=True,
             desc='fg, de: the matrix applied to (f, g) and to (d, e) modulo the modulus; divsteps: the outer loop', want=['fg', 'de', 'divsteps'],
             use=['safegcd']),
        dict(key='inverter', rel=['src/modular/safegcd.rs'], ns='CB.Gen.SafeGcdLimbs.Inverter', self_ty='SafeGcdInverter',
             generic='UNSAT_LIMBS', unsat=True, inverter=True, private=True,
             desc='impl SafeGcdInverter<SAT_LIMBS, UNSAT_LIMBS>: norm (`&self` is the tuple of the fields modulus, adjuster, inverse)',
             want=['norm']),
        dict(key='unsat_convert', rel=['src/modular/safegcd.rs'], ns='CB.Gen.SafeGcdLimbs.Convert', self_ty='UnsatInt', generic='LIMBS',
             unsat=True, limb_convert=True, panic_guards=True, generic2='SAT_LIMBS',
             desc='impl<const LIMBS: usize> UnsatInt<LIMBS>: from_uint, to_uint (the macro impl_limb_convert! expanded: 64-bit words <-> 62-bit words)',
             want=['from_uint', 'to_uint']),
        dict(key='inverter_api', rel=['src/modular/safegcd.rs'], ns='CB.Gen.SafeGcdLimbs.InverterApi', self_ty='SafeGcdInverter',
             generic='UNSAT_LIMBS', generic2='SAT_LIMBS', unsat=True, inverter=True, limb_convert=True, inverter_api=True,
             use=['safegcd_limbs', 'safegcd'],
             desc='impl SafeGcdInverter<SAT_LIMBS, UNSAT_LIMBS>: new, inv (the inverter is the tuple of its fields modulus, adjuster, inverse)',
             want=['new', 'inv']),
    ]),
]

AUX = re.compile(r'\w+_loop\d+$')
AUX = re.compile(AUX.pattern + r'|\w+_asserts$')     # the `assert!`s of a function stay with it, like its loops


REF = os.path.join(GEN, 'ref')     # committed copies of the generated files (`<file>.ref`): what the hand-written bridge lemmas were written against


def skeleton(text):
    """the SHAPE of a translated function: the header (binder TYPES and result type, names dropped) of its definition and of
    each of its auxiliary loop definitions, in order.  A token-level edit of a body (constant, index, operator, callee) keeps
    it; a restructuring (another loop nest, another loop state, another parameter list) changes it."""
    heads = []
    for m in re.finditer(r'^@\[gen_defs\] def (\w+)(.*?)(?::=|\n\s*\|)', text, re.M | re.S):
        h = re.sub(r'\(\s*[\w\']+(?:\s+[\w\']+)*\s*:', '(', m.group(2))      # `(a b : T)` -> `(T)`
        heads.append(m.group(1) + ' ' + re.sub(r'\s+', ' ', h).strip())
    return heads


def read_last(path):
    ref = os.path.join(REF, os.path.basename(path) + '.ref')
    if os.path.exists(ref):
        path = ref       # the committed reference, not the working file (which an earlier run on a changed source has overwritten)
    """previously generated definitions, by (namespace, name): kept for functions that cannot be re-translated;
    an auxiliary loop definition stays with the function it precedes; structures by (namespace, 'structure Name')"""
    last = {}
    if not os.path.exists(path):
        return last
    cur_ns, pending = None, ''
    txt = open(path).read()
    for blk in re.split(r'\n(?=namespace |@\[gen_defs\] def |structure |end )', txt):
        m = re.match(r'namespace (\S+)', blk)
        if m:
            cur_ns, pending = m.group(1), ''
        m = re.match(r'structure (\w+)', blk)
        if m and cur_ns:
            last[(cur_ns, 'structure ' + m.group(1))] = blk.rstrip()
        m = re.match(r'@\[gen_defs\] def (\w+)', blk)
        if m and cur_ns:
            if AUX.match(m.group(1)):
                pending += blk.rstrip() + '\n\n'
            else:
                last[(cur_ns, m.group(1))] = pending + blk.rstrip()
                pending = ''
    return last


def main():
    report = dict(translated=[], kept_last=[], missing=[], reshaped=[])
    reg = {}     # unit key -> (namespace, signatures of the functions translated NOW)
    STRUCTS.clear()
    MUTP.clear()
    MUTOUT.clear()
    GENERIC2_FNS.clear()
    for fname, imports, units in FILES:
        out_path = os.path.join(GEN, fname)
        last = read_last(out_path)
        parts = ['/- GENERATED by tools/translate.py from /repo on every check run. Do not edit. -/'] + [(f'import {m}' if m and not m.startswith('set_option') else (m or '')) for m in imports] + ['']
        for u in units:
            rel, ns, self_ty, desc = u['rel'], u['ns'], u['self_ty'], u['desc']
            path = [os.path.join(REPO, r) for r in rel] if isinstance(rel, list) else os.path.join(REPO, rel)
            if u.get('generic'):
                GENERIC_NS[ns] = u['generic']
            parts.append(f'/-! {desc} ({", ".join(rel) if isinstance(rel, list) else rel}) -/')
            parts.append(f'namespace {ns}')
            if u.get('struct'):
                # `struct Name { field: intty, .. }` -> a lean structure with the same field names
                sname = u['struct']
                stext = None
                try:
                    fields = parse_struct(open(path).read(), sname)
                    stext = f'structure {sname} where\n' + '\n'.join(f'  {f} : {lean_ty(t)}' for f, t in fields)
                    report['translated'].append(f'{ns}.{sname} (struct)')
                except (Unsupported, OSError) as ex:
                    stext = last.get((ns, 'structure ' + sname))
                    fields = [(f, int(w)) for f, w in re.findall(r'^  (\w+) : BitVec (\d+)$', stext or '', re.M)]
                    report['kept_last' if stext else 'missing'].append(dict(fn=f'{ns}.{sname} (struct)', why=str(ex)))
                if stext:
                    STRUCTS[sname] = (f'{ns}.{sname}', fields)
                    parts.append(stext); parts.append('')
            if u.get('consts'):
                emit_consts(u, ns, parts, report)
            ext = dict(choice=reg.get('choice'), limb=reg.get('limb'), uint=reg.get('uint'),
                       use=[reg[k] for k in u.get('use', []) if k in reg],
                       limb_more=[reg[k] for k in u.get('limb_more', []) if k in reg])
            ext['limb+'] = [reg[k] for k in u.get('more_limb', []) if k in reg]
            ext['uint+'] = [reg[k] for k in u.get('more_uint', []) if k in reg]
            OPTS.clear()
            OPTS.update({k: u[k] for k in ('skip_asserts', 'free_generic', 'slices', 'nat_loops') if u.get(k)})
            OPTS.update({k: u[k] for k in ('generic2', 'nonconst', 'panic_guards') if u.get(k)})
            ext['uint_more'] = [reg[k] for k in u.get('uint_more', []) if k in reg]
            ext.update(int=reg.get('int'))
            for opt in ('generic_alias',):
                if u.get(opt):
                    ext[opt] = u[opt]
            for opt in ('fuel', 'skip_mods', 'defer_lets'):
                if u.get(opt):
                    ext[opt] = u[opt]
            OPTS.update({k: u[k] for k in ('usize_nat',) if u.get(k)})
            OPTS.update({k: u[k] for k in ('usize_param_nat',) if u.get(k)})
            OPTS.update({k: u[k] for k in ('unsat',) if u.get(k)})      # (G18) `UnsatInt<LIMBS>` values
            OPTS.update({k: u[k] for k in ('limb_convert',) if u.get(k)})      # (G19) `impl_limb_convert!` expanded in the unit's text
            OPTS.update({k: u[k] for k in ('inverter_api',) if u.get(k)})      # (G19) `SafeGcdInverter::{new, inv}`
            ext['g19'] = dict(convert=reg.get('unsat_convert'), inverter=reg.get('inverter'))
            ext['unsat'] = reg.get('unsat')
            if u.get('inverter'):
                try:
                    read_inverter_fields(open(path[0] if isinstance(path, list) else path).read())
                except OSError:
                    INVERTER_FIELDS.clear()
            if u.get('unsat'):
                try:
                    read_unsat_consts(impl_blocks(open(path[0] if isinstance(path, list) else path).read(), 'UnsatInt'))
                except (Unsupported, OSError):
                    UNSAT_CONSTS.clear()
            try:
                order, out, failed, sigs = translate_file(path, ns, self_ty, u.get('want'), u.get('private', False), ext, u.get('cut'))
            except (Unsupported, OSError) as ex:
                order, out, failed, sigs = [], {}, {'*': str(ex)}, {}
            # a function whose SHAPE differs from the committed reference translation (another loop nest / loop state /
            # parameter list): the hand-written bridge lemmas were written against the old shape and cannot apply to the new
            # one, whatever it computes — it is treated like a function that left the subset: the reference translation is
            # kept, the evidence lists it under `reshaped`, and the behavioural correspondence carries the tie for it
            reshaped = {}
            for n in list(out):
                if (ns, n) in last and skeleton(out[n]) != skeleton(last[(ns, n)]):
                    reshaped[n] = 'shape changed: ' + ' | '.join(skeleton(out[n]))[:300]
            grew = True
            while grew:
                grew = False
                for n in list(out):
                    if n not in reshaped and any(re.search(re.escape(f'{ns}.{f}') + r'(?![\w.])', out[n]) for f in reshaped):
                        reshaped[n] = 'calls a reshaped function'; grew = True
            for n, why in reshaped.items():
                out.pop(n); failed[n] = why; sigs.pop(n, None)
                if (ns, n) in last:
                    report['reshaped'].append(dict(fn=f'{ns}.{n}', why=why))
            reg[u['key']] = (ns, sigs)
            names = list(order)
            for w in u.get('want') or []:
                if w not in names:
                    names.append(w)      # a wanted function that is not in the source any more
            for (lns, n) in last:
                if lns == ns and n not in names and not n.startswith('structure '):
                    names.append(n)      # a function that vanished from the source: keep the last translation
            # emit in dependency order: a definition after everything it calls
            emitted = set()
            texts = {}
            for n in names:
                if n in out:
                    texts[n] = out[n]; report['translated'].append(f'{ns}.{n}')
                elif (ns, n) in last:
                    texts[n] = last[(ns, n)]; report['kept_last'].append(dict(fn=f'{ns}.{n}', why=failed.get(n, failed.get('*', 'not found in the source'))))
                else:
                    report['missing'].append(dict(fn=f'{ns}.{n}', why=failed.get(n, failed.get('*', 'not found in the source') if u.get('want') else '')))
            pending = [n for n in names if n in texts]
            while pending:
                progress = False
                for n in list(pending):
                    deps = set(re.findall(re.escape(ns) + r'\.(\w+)', texts[n])) - {n}
                    if deps <= emitted or not (deps & set(pending)):
                        parts.append(texts[n]); parts.append('')
                        emitted.add(n); pending.remove(n); progress = True
                if not progress:
                    for n in pending:
                        parts.append(texts[n]); parts.append('')
                    break
            parts.append(f'end {ns}')
            parts.append('')
        new = '\n'.join(parts)
        os.makedirs(GEN, exist_ok=True)
        if not os.path.exists(out_path) or open(out_path).read() != new:
            open(out_path, 'w').write(new)
    if '--accept' in sys.argv:
        # the developer accepts the current translation as the reference the bridge lemmas are written against
        os.makedirs(REF, exist_ok=True)
        for fname, _, _ in FILES:
            src_ = os.path.join(GEN, fname)
            if os.path.exists(src_):
                open(os.path.join(REF, fname + '.ref'), 'w').write(open(src_).read())
    json.dump(report, open(os.path.join(GEN, 'report.json'), 'w'), indent=1)
    if '-v' in sys.argv:
        print(json.dumps(report, indent=1))


if __name__ == '__main__':
    main()
