#!/usr/bin/env python3
"""Integrator helper: merge an agent's proposed classifiers and known-finding entries from its scratch copy.
usage: merge_agent.py Cxx [scratch_dir]"""
import json, re, sys, os
pid = sys.argv[1]
src = sys.argv[2] if len(sys.argv) > 2 else f'/tmp/w/{pid}/verif'
V = os.path.dirname(os.path.dirname(os.path.abspath(__file__)))
# classifiers: top-level defs (with preceding helper defs) not yet present
mine = open(f'{V}/tools/findings.py').read()
theirs = open(f'{src}/tools/findings.py').read()
have = set(re.findall(r'^def (\w+)', mine, re.M))
blocks = re.split(r'\n(?=def \w+)', theirs)
added = []
for b in blocks:
    m = re.match(r'def (\w+)', b)
    if m and m.group(1) not in have:
        mine = mine.rstrip('\n') + '\n\n\n' + b.rstrip('\n') + '\n'
        added.append(m.group(1))
# top-level imports / constants the blocks may need
for line in theirs.split('\n'):
    if re.match(r'^(import |from |[A-Z_]+ = )', line) and line not in mine:
        mine = line + '\n' + mine
open(f'{V}/tools/findings.py', 'w').write(mine)
k = json.load(open(f'{V}/known_findings.json'))
t = json.load(open(f'{src}/known_findings.json'))
ids = {f['id']: i for i, f in enumerate(k['findings'])}
n = 0
fixed_ids = {f['id'] for f in k.get('fixed', [])}
for f in t.get('findings', []):
    # only this property's entries, never one that is already repaired (scratch copies carry stale lists)
    if pid not in f.get('properties', []) or f['id'] in fixed_ids:
        continue
    if f['id'] in ids:
        k['findings'][ids[f['id']]] = f
    else:
        k['findings'].append(f); n += 1
json.dump(k, open(f'{V}/known_findings.json', 'w'), indent=1)
print('classifiers added:', added, '; findings added:', n)
