# append to tools/findings.py (classifiers of the C10 entries in notes/C10-known_findings-entries.json)

# ---------------------------------------------------------------- C10

def _c10_nlimbs(sat_limbs):
    """safegcd_nlimbs!(64 * sat_limbs) = (bits + 64).div_ceil(62)"""
    return (64 * sat_limbs + 64 + 61) // 62


def _c10_tz(x, bits):
    return bits if x == 0 else (x & -x).bit_length() - 1


def c10_boxed_gcd_mixed_precision(f, line, impl, spec):
    """C10-boxed-gcd-mixed-precision: `Gcd::gcd / gcd_vartime for BoxedUint` with operands of DIFFERENT precision.
    `BoxedUint::ct_select(&s1, &s2, _)` (src/uint/boxed/ct.rs) builds a result of `s1`'s limb count and indexes
    `s2.limbs[i]` for every such i: a shorter rhs -> index out of bounds (panic), a longer rhs -> its high limbs are
    dropped before safegcd runs, so the gcd of (self, rhs mod 2^precision(self)) is returned; builds with debug
    assertions panic on the precision `debug_assert_eq!` for every mixed pair.  Matches only: op c10.b.gcd_mixed,
    la != lb, and the implementation output is `panic` or EXACTLY the value this defect computes (and differs from
    the spec); with an odd lhs and vartime the call goes straight to safegcd (see C10-boxed-safegcd-wider-rhs-debug-assert)."""
    import math
    t = line.split()
    if t[0] != 'c10.b.gcd_mixed' or len(t) != 6:
        return False
    la, a, lb, b, vt = int(t[1]), int(t[2], 16), int(t[3]), int(t[4], 16), t[5]
    if la == lb or impl == spec:
        return False
    if vt == '1' and a % 2 == 1:
        return False
    if impl == 'panic':
        return True           # la > lb: index out of bounds in every build; la < lb: debug assertion (dbgchk)
    if la > lb:
        return False
    wa = 64 * la
    k = min(_c10_tz(a, wa), _c10_tz(b, 64 * lb))
    s1 = a >> k if k < wa else 0
    s2 = (b >> k if k < 64 * lb else 0)
    s2t = s2 % (1 << wa)
    fo, g = (s1, s2t) if s2 % 2 == 1 else (s2t, s1)
    r = (math.gcd(fo, g) << k) % (1 << wa) if k < wa else 0
    return impl == format(r, 'x')


def c10_boxed_safegcd_wider_rhs_debug_assert(f, line, impl, spec):
    """C10-boxed-safegcd-wider-rhs-debug-assert: `Odd<BoxedUint>::gcd(_vartime)(rhs)` (and `BoxedUint::gcd_vartime`
    with an odd lhs) with rhs of LARGER precision: safegcd::boxed::gcd sizes the unsaturated limbs for the wider
    operand and converts back with `to_uint(f.bits_precision())`, whose `debug_assert_eq!(self.nlimbs(),
    safegcd_nlimbs!(bits_precision))` fires.  Release builds return the right gcd.  Matches only a `panic` output
    with lb > la on these two routes."""
    t = line.split()
    if len(t) != 6 or impl != 'panic' or spec == 'panic':
        return False
    la, a, lb = int(t[1]), int(t[2], 16), int(t[3])
    if t[0] == 'c10.b.odd_gcd_mixed':
        return lb > la
    if t[0] == 'c10.b.gcd_mixed':
        return lb > la and t[5] == '1' and a % 2 == 1
    return False


def c10_boxed_inv_odd_mod_mixed_precision(f, line, impl, spec):
    """C10-boxed-inv-odd-mod-mixed-precision: `BoxedUint::inv_odd_mod` / `BoxedSafeGcdInverter::invert` with a value
    whose precision differs from the modulus'.  Value narrower: the inverse (which is < modulus) is converted back with
    `to_uint(value.bits_precision())`, i.e. truncated to the value's precision.  Value wider: `widen()` is a
    `Vec::resize`, which TRUNCATES the value to the modulus' unsaturated limb count and the divsteps arithmetic
    wraps: `none` or the inverse of some other number is returned whenever the value exceeds the modulus' precision.  Both conditions are only `debug_assert`ed: builds with debug
    assertions panic.  Matches only: op c10.b.inv_odd_mod_mixed, la != lm, output `panic` or EXACTLY what the defect
    computes, and different from the spec."""
    import math
    t = line.split()
    if t[0] != 'c10.b.inv_odd_mod_mixed' or len(t) != 5:
        return False
    la, a, lm, m = int(t[1]), int(t[2], 16), int(t[3]), int(t[4], 16)
    if la == lm or impl == spec or m % 2 == 0:
        return False
    if impl == 'panic':
        return True
    if la > lm and a >> (64 * lm) != 0:
        # the unsaturated limbs are sized for the modulus: a value that does not fit its precision is cut to
        # 62·n bits and the divsteps arithmetic wraps — any answer other than the specified one is this defect
        return True
    if math.gcd(a, m) != 1:
        return impl == 'none'
    x = pow(a, -1, m) if m > 1 else 0
    return impl == format(x % (1 << (64 * la)), 'x')
